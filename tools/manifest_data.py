HOOK_COMMITS = []
_PENDING = "check not built yet in this session (designed in DESIGN.md section 4; will be claimed once it runs)"
CHECKS = [
    {"property_id": "C01", "category": "exploration", "design_ref": "DESIGN.md 4/C01",
     "technique": "bounded-exhaustive enumeration of network shapes (explicit-state, real code) + mass-balance oracle",
     "text": "Every network of scope H (all multigraph skeletons n<=4,e<=4(5) up to isomorphism x every feeder position x "
             "water/gas x every point within d<=1 (quick) / d<=2 (thorough) deviations of an 18-kind branch alphabet, 8 "
             "load kinds (incl. 0/1 status columns), heights, in_service, feeder variants, labels, friction model, numba, damping "
             "method and constant damping factor - the latter with the solver's default tolerances) plus circulation-"
             "pump loops is built through create_*, solved by the real pipeflow and its res_* tables are checked for "
             "junction-wise and global mass balance to 1e-9 relative. Exhaustive within the stated scope; nothing beyond it.",
     "note": "trusted: CPython/numpy/pandas, the harness' NetSpec builder (public create_* only), tight solver options; "
             "non-converging cases are counted and skipped (coverage floor 50%)"},
]
NOT_APPLICABLE = [{"property_id": "C%02d" % i, "reason": _PENDING} for i in range(2, 21)]

CHECKS += [
    {"property_id": "C02", "category": "exploration", "design_ref": "DESIGN.md 4/C02",
     "technique": "bounded-exhaustive parameter-lattice enumeration on the real solver + independent momentum-law oracle",
     "text": "Every point within d<=2 (quick) / d<=3 (thorough) deviations of a 12-dimensional parameter lattice (length, "
             "diameter, roughness, heights, loss coefficient, temperatures, pressure, direction, laminar/turbulent flow, "
             "sections, element kind pipe/valve/heat exchanger, single/mesh) x 8 library fluids x 3 friction models x numba, "
             "plus scope H d<=1, is solved by the real pipeflow; per section the documented liquid / real-gas momentum "
             "law is re-evaluated by harness code (own Colebrook iteration, own barometric formula) to 1e-9 bar and the "
             "reported lambda, Re, velocities, volume flows and norm factors are recomputed.",
     "note": "fluid property values through the public Fluid API (C19 binds them to the data files); envelope oracle where "
             "end temperatures differ; alphabet values only"},
    {"property_id": "C04", "category": "exploration", "design_ref": "DESIGN.md 4/C04",
     "technique": "exhaustive flag-lattice enumeration (all 2^k patterns) on the real solver + reachability model + differential run",
     "text": "All 2^k in_service/opened/control_active patterns (k=9-10 quick, 9-14 thorough) on eight superset networks "
             "(two-feeder water mesh with pressure and flow controller, ring with junction-pipe valves and colliding "
             "labels, gas tree with compressor, heat ladder with two circulation pumps, thermal-supply net with a p-type "
             "feeder in sequential and bidirectional mode, chain with feeders on junctions that can be out of service, pressure controllers met from both sides) are run through "
             "the real pipeflow; NaN pattern of every result row is compared with an independent reachability model "
             "(valve nodes, one-way controlling pressure controller) and all results with those of the pruned network; thermal "
             "supersets are re-run with the compiled kernels (same verdict and pattern); "
             "no supplied junction => PipeflowNotConverged, any other exception type is a violation.",
     "note": "the reachability model is harness code written from the statement and the component documentation; "
             "a feeder on an out-of-service junction supplies nothing; only the sub-case where another feeder re-activates that "
             "junction is excluded as ambiguous and counted"},
    {"property_id": "C05", "category": "model_checking", "design_ref": "DESIGN.md 4/C05 and 5",
     "technique": "explicit-state exploration of the real Newton driver under a scripted environment + TLC model with full "
                  "path replay against the implementation + exhaustive fault injection / call-history BFS on pipeflow",
     "text": "(a) BFS over all letter sequences (per-unknown change level x residual level, incl. NaN and the exact boundary) "
             "up to the iteration bound on the real newton_raphson/finalize_iteration/set_damping_factor for the hydraulic, "
             "thermal and bidirectional stage, three damping settings, three initial alphas (1, 0.1, 0.01), with state deduplication; "
             "(b) TLC explores tla/NewtonDriver.tla completely (Inv, Budget, TypeOK) and every path of the dumped state "
             "graph is replayed on the real driver and compared state by state; (c) BFS over pipeflow call/edit histories "
             "(depth 2/3) on three nets with a monitor recomputing the last change of every unknown; (d) every single "
             "(thorough: adjacent pair of) faulty spsolve answer at every solve index after a successful run; (e) all "
             "two-junction networks (incl. every pair of parallel branch kinds) x solver settings x extreme inner tolerances: a refusal is PipeflowNotConverged, never "
             "another exception type, and leaves no results.",
     "note": "TLC trusted for the model; the stub linearisation reproduces the interface of solve_hydraulics / "
             "solve_temperature / solve_bidirectional (argument lists of bidirectional are read from its source)"},
    {"property_id": "C14", "category": "model_checking", "design_ref": "DESIGN.md 4/C14",
     "technique": "exhaustive enumeration of option-layer configurations and set_user_pf_options histories against a reference model",
     "text": "Full product of presence patterns of every option key (+iter, +unknown key) in the user and call layers, the "
             "full iter x max_iter_* presence product over both layers, mode alias, reuse/only_update coupling product, "
             "numba availability, all key pairs (thorough) and all set_user_pf_options/pipeflow histories to depth 2/3; "
             "net._options is compared key by key with a reference merge; defaults, user options and call kwargs are "
             "checked for mutation; documented defaults are parsed from the init_options docstring; observable effects "
             "(iteration budget, friction model) are measured.",
     "note": "reference model written from doc/source/pipeflow/options.rst and the statement; pinned copy of default values"},
]

CHECKS += [
    {"property_id": "C03", "category": "exploration", "design_ref": "DESIGN.md 4/C03",
     "technique": "bounded-exhaustive enumeration of set-point configurations on the real solver + recomputation of every prescribed value",
     "text": "Scope H (d<=1), circulation-pump ladders and dedicated lattices (pump types x temperatures x direction x height x "
             "out-of-service sibling; compressor ratios x direction x heights; 1-2 pressure controllers with remote junction; "
             "flow controllers in series/mesh/reversed/parallel; all table orders of up to 5 ext grids over two junctions) are "
             "solved and every prescribed pressure, flow, lift, ratio, pump-curve value and load is recomputed from the tables.",
     "note": "pump curve evaluated by the harness from the std type's polynomial coefficients; hydrostatic term of a height "
             "difference across a compressor/pump is accepted on top of ratio/lift"},
    {"property_id": "C06", "category": "exploration", "design_ref": "DESIGN.md 4/C06",
     "technique": "exhaustive permutation enumeration (labels, rows, creation order) with differential oracle on element identity",
     "text": "For three base networks every permutation of junction and pipe labels over four label pools (incl. >=1e5), of "
             "the labels of every other table, every row permutation of one table and every creation order of element kinds "
             "is built and solved (numba on/off, hydraulics/sequential); every result cell must equal the reference "
             "description's cell for the same element.",
     "note": "quick tier uses all permutations for tables with <=4 rows and all rotations/reversals beyond; thorough all"},
    {"property_id": "C07", "category": "model_checking", "design_ref": "DESIGN.md 4/C07",
     "technique": "full-product enumeration of twin-kernel inputs + engine-differential on enumerated networks + explicit-state BFS over reuse histories",
     "text": "(a) each numba/numpy twin kernel is evaluated on the full product of per-column alphabets and compared output by "
             "output; (b) scope H d<=1, scope T (water and gas, d<=1/2 per fluid) and loops are solved with both engines; (c) all histories (depth<=2/3) of "
             "pipeflow calls with only_update_hydraulic_matrix/reuse_internal_data and load/set-point edits are replayed on "
             "one net object and every state is compared with a fresh calculation.",
     "note": "Jacobian outputs of the kernels are compared informationally only (the statement is about results)"},
    {"property_id": "C09", "category": "exploration", "design_ref": "DESIGN.md 4/C09",
     "technique": "exhaustive enumeration of rewrite application sites on enumerated networks with differential oracle",
     "text": "On every scope H / scope T base (T: water and gas, sequential and bidirectional) every application site of seven rewrites (reverse branch, sections <-> series "
             "pipes, re-sectioning, load splitting, source <-> negative sink, disabled <-> deleted, pressure shift; thorough: all "
             "pairs on thermal bases) is applied to the NetSpec and both descriptions are solved and compared on element "
             "identity with the sign/column transformation the rewrite implies.",
     "note": "a differing convergence verdict is counted, not flagged (Newton's start values follow the declared orientation)"},
    {"property_id": "C10", "category": "exploration", "design_ref": "DESIGN.md 4/C10",
     "technique": "bounded-exhaustive enumeration of thermal networks on the real solver + independent thermal-law oracle",
     "text": "Eight open thermal topologies (every point within d<=2/3 deviations of per-pipe sections/u/ambient/outer diameter/"
             "orientation and global fluid/mode/numba/ambient option; one with a pressure-only feeder and an absorbing grid) and circulation-pump ladders in sequential and bidirectional "
             "mode; per flowing section the exponential cooling law with mean cp, per junction the energy balance with mean "
             "cp weights, fixed feed temperatures and the min/max principle are re-evaluated from the result tables to 1e-7 K.",
     "note": "section temperatures are read from the solver's node table; zero-flow branches excluded"},
    {"property_id": "C11", "category": "exploration", "design_ref": "DESIGN.md 4/C11",
     "technique": "exhaustive enumeration of heat-consumer mode assignments on ladder loops + duty identities",
     "text": "All assignments of the five heat-consumer specification modes and exchanger rungs to k<=2/3 rungs x heat sign x "
             "pipe heat loss x pump kind x sequential/bidirectional (+ variant with reversed consumer labels and a switched-off consumer): duty identity q = mdot*cp_mean*dT per consumer/exchanger, "
             "reported deltat, set-points (mass flow always, the second quantity when mass flow is prescribed or in "
             "bidirectional mode) and loop closure of the circulation pump's heat within the cp-discretisation envelope.",
     "note": "non-converging assignments are counted (coverage floor 30%)"},
]

CHECKS += [
    {"property_id": "C08", "category": "exploration", "design_ref": "DESIGN.md 4/C08",
     "technique": "exhaustive enumeration of start-value assignments x damping strategy per enumerated base network, pairwise agreement of converged runs",
     "text": "For every base (scope H skeletons with heights, gas bases with 200 m steps, scope T topologies, consumer ladders) all "
             "assignments of pn_bar / tfluid_k from an alphabet under the patterns uniform / alternating / ascending x "
             "{constant, automatic} damping are solved; all converged runs must agree within 1e-7.",
     "note": "tfluid_k is varied only where it is a pure start value (sequential: trees and mass-flow-defined consumers, compared "
             "on temperatures/flows/duties; bidirectional: everything); pumps/compressors inside meshes excluded (non-unique physics)"},
    {"property_id": "C12", "category": "model_checking", "design_ref": "DESIGN.md 4/C12",
     "technique": "explicit-state BFS over call/edit histories on one net object with deep input snapshots and fresh-net differential",
     "text": "All histories of steps (optional user-option / edit / restore operation + one pipeflow in one of 8 modes/option sets) "
             "of depth 2 (quick) / 3 (thorough) on three nets (incl. heat-defined consumers whose demand is switched off and restored): before/after deep snapshots of every input (tables, fluid "
             "properties, std types, component list, user options, default options), bit-identical repeat, equality with the "
             "same call on a freshly built net, heat-from-stored-solution = sequential (also from a solution kept across a "
             "failing run).",
     "note": "the documented hyd_flag marker in user_pf_options is excluded"},
    {"property_id": "C13", "category": "model_checking", "design_ref": "DESIGN.md 4/C13",
     "technique": "exhaustive enumeration of profile vectors x step lists x divergence policy, each logged step replayed as a stand-alone calculation",
     "text": "All profile vectors of length 3/4 over {low, mid, high, infeasible demand, feeder off} x 6+ step lists (forward, "
             "reversed, single, subsets, rotated) x continue_on_divergence x 1-2 controllers on a gas tree and a water mesh, the gas tree also as member of a "
             "multinet (multi-energy time series, both member orders), topology-changing profiles x only_update_hydraulic_matrix: "
             "every logged step equals a stand-alone pipeflow on a fresh net with that step's values; failed steps are flagged, "
             "carry no results, raise PipeflowNotConverged without continue_on_divergence and do not disturb later steps.",
     "note": "pandapower's ConstControl/OutputWriter/run_time_step trusted"},
    {"property_id": "C15", "category": "exploration", "design_ref": "DESIGN.md 4/C15",
     "technique": "enumeration of network variations x storage paths with deep round-trip comparison and re-calculation",
     "text": "One network per component kind, 19 variations (empty, NaN/None cells, odd indices, custom columns, five custom "
             "fluid property classes, pump types, results, user options, sectors, controllers, warn flag), pairs of variations "
             "(thorough) and a multinet with coupling controllers x {json string, json file, encrypted json, pickle}: tables "
             "(dtype, index, order), fluid property by property, std types, component list, sector, name, user options, "
             "controllers and data sources, nets_equal, identical pipeflow results.",
     "note": "tuple vs list cells, None vs NaN in object columns and 1e-14 float noise of the JSON encoder (pandapower) are not counted"},
    {"property_id": "C16", "category": "fault_enumeration", "design_ref": "DESIGN.md 4/C16",
     "technique": "exhaustive fault enumeration: every fault kind at every argument position of every create function, on empty/populated nets of every sector",
     "text": "For all 30 create_* functions the valid call and every fault of the menu at every argument position on {junction-only, "
             "populated} x 5 sectors: a rejected call must leave every table, geodata, component_list and std types unchanged; a "
             "call that neither raises nor adds rows is a violation; given values and dtypes are stored; documented defaults "
             "(docstrings, also behind the deprecation wrapper) equal signature defaults; bulk = singles (incl. Series / list / array / "
             "None argument forms on partially filled tables); "
             "every pipe std type and pump type equals creation from its parameters.",
     "note": "fault menu written from the statement (references, indices, lengths, geodata counts, unstorable values); pipe "
             "geodata content is not validated"},
    {"property_id": "C17", "category": "model_checking", "design_ref": "DESIGN.md 4/C17",
     "technique": "explicit-state BFS over toolbox operation sequences on the real net against a name-keyed reference model",
     "text": "All sequences (depth 2 quick / 3 thorough) of 29 toolbox operations on two nets with junction-pipe valves whose pipe "
             "index does / does not coincide with junction indices, remote pressure controller, circulation pumps and results: "
             "after every operation referential integrity (own reference-column list), equality with the reference model "
             "(elements, connections by name, untouched attributes), stored result rows follow every relabelling bit-identically "
             "(read by element name), a fresh pipeflow reproduces them, selected islands "
             "reproduce their results.",
     "note": "reference model written from the docstrings"},
    {"property_id": "C18", "category": "exploration", "design_ref": "DESIGN.md 4/C18",
     "technique": "exhaustive flag-lattice enumeration x graph option combinations with solver-differential and own edge census / Dijkstra",
     "text": "All consistent patterns of the 2^k lattices of four superset nets x multi x (for <=1 flag off) every include_* / "
             "respect_status_* option set with <=2 options changed and every leave-one-out include_pipes list: "
             "unsupplied_junctions vs solver NaN set, components vs solver islands, multigraph edge census, distances vs own Dijkstra.",
     "note": "two known findings (prescribed-flow elements connect in the default graph; one-way pressure controller) are listed in known_findings.json"},
    {"property_id": "C19", "category": "exploration", "design_ref": "DESIGN.md 4/C19",
     "technique": "exhaustive enumeration over the shipped library data (all fluids, tabulated points, query shapes, pump types, pipe types)",
     "text": "Every library fluid x property at every tabulated point, midpoint and outside points x 6 query shapes against the data "
             "files; compressibility slope = stored derivative; integral antisymmetry / additivity / exactness for every property "
             "class; mixture rules on the simplex grid; pump lift rules for scalar and array queries; all 285 pipe std types (parameters, overrides, library unchanged by overrides).",
     "note": "data files are the ground truth"},
    {"property_id": "C20", "category": "model_checking", "design_ref": "DESIGN.md 4/C20",
     "technique": "enumeration of multinet controller configurations and level orders with stand-alone differential per member net",
     "text": "Every coupling controller kind x efficiency x scaling x scalar/vector/gapped index, chains of two controllers in all "
             "orders on one and two levels with feasible / uncomputable gas member, round trips, 3-step multinet time series with the profile on the power or on the gas side (both member orders): "
             "written values = scaled input x heating-value factor x efficiency (heating values read from the data files), "
             "every member holds the results of a stand-alone calculation, multinet converged flag = conjunction of member flags.",
     "note": "pandapower power flow and controller loop trusted"},
]
NOT_APPLICABLE = [x for x in NOT_APPLICABLE if x["property_id"] not in {c["property_id"] for c in CHECKS}]
