HOOK_COMMITS = []
_PENDING = "check not built yet in this session (designed in DESIGN.md section 4; will be claimed once it runs)"
CHECKS = [
    {"property_id": "C01", "category": "exploration", "design_ref": "DESIGN.md 4/C01",
     "technique": "bounded-exhaustive enumeration of network shapes (explicit-state, real code) + mass-balance oracle",
     "text": "Every network of scope H (all multigraph skeletons n<=4,e<=4(5) up to isomorphism x every feeder position x "
             "water/gas x every point within d<=1 (quick) / d<=2 (thorough) deviations of an 18-kind branch alphabet, 8 "
             "load kinds, heights, in_service, feeder variants, labels, friction model, numba, damping) plus circulation-"
             "pump loops is built through create_*, solved by the real pipeflow and its res_* tables are checked for "
             "junction-wise and global mass balance to 1e-9 relative. Exhaustive within the stated scope; nothing beyond it.",
     "note": "trusted: CPython/numpy/pandas, the harness' NetSpec builder (public create_* only), tight solver options; "
             "non-converging cases are counted and skipped (coverage floor 50%)"},
]
NOT_APPLICABLE = [{"property_id": "C%02d" % i, "reason": _PENDING} for i in range(2, 21)]
