#!/venv/bin/python
"""Run checks against a seeded (property-breaking) patch in a scratch worktree.
usage: tools/seeded.py <seed-name> <CHECK>[,<CHECK>...] [--tier quick]
The patch is applied to a throw-away git worktree of /repo HEAD (outside /repo and /verif); the checks run with
VERIF_REPO_SRC pointing there; the worktree is removed afterwards.  Result is appended to seeded/<name>/runs.json."""
import json, os, subprocess, sys, time, shutil
V = os.path.dirname(os.path.dirname(os.path.abspath(__file__)))
name, checks = sys.argv[1], sys.argv[2].split(",")
tier = sys.argv[4] if len(sys.argv) > 4 and sys.argv[3] == "--tier" else "quick"
sd = os.path.join(V, "seeded", name)
wt = "/tmp/seedwt_%s_%d" % (name, os.getpid())
subprocess.run(["git", "-C", "/repo", "worktree", "add", "-q", "--detach", wt, "HEAD"], check=True)
try:
    subprocess.run(["git", "-C", wt, "apply", os.path.join(sd, "patch.diff")], check=True)
    out = {}
    for c in checks:
        env = dict(os.environ, VERIF_REPO_SRC=wt + "/src", VERIF_EVIDENCE_DIR="/tmp/seed_ev_%d" % os.getpid())
        t0 = time.time()
        p = subprocess.run(["/venv/bin/python", "-m", "mc.run", c, "--tier", tier], cwd=V, env=env, capture_output=True, text=True)
        lines = [l for l in p.stdout.splitlines() if l.startswith(("VIOLATION", "  clause", "KNOWN", "INCONCLUSIVE", "HARNESS", c + " tier"))]
        out[c] = {"exit": p.returncode, "wall_s": round(time.time() - t0, 1), "lines": lines[:12]}
        print(name, c, "exit", p.returncode, "%.0fs" % (time.time() - t0))
        for l in lines[:8]:
            print("   ", l[:300])
        if p.returncode not in (0, 1, 3):
            print(p.stdout[-1500:], p.stderr[-1500:])
    rp = os.path.join(sd, "runs.json")
    runs = json.load(open(rp)) if os.path.exists(rp) else []
    runs.append({"when": time.strftime("%Y-%m-%d %H:%M"), "tier": tier, "results": out})
    json.dump(runs, open(rp, "w"), indent=1)
finally:
    subprocess.run(["git", "-C", "/repo", "worktree", "remove", "--force", wt])
    shutil.rmtree("/tmp/seed_ev_%d" % os.getpid(), ignore_errors=True)
