#!/bin/bash
# runs every quick (or $1) check sequentially; prints exit code and wall time
tier=${1:-quick}
cd "$(dirname "$0")/.."
for i in 01 02 03 04 05 06 07 08 09 10 11 12 13 14 15 16 17 18 19 20; do
  s=$(date +%s)
  /venv/bin/python -m mc.run C$i --tier $tier > /tmp/runall_${tier}_C$i.log 2>&1
  rc=$?
  e=$(date +%s)
  echo "C$i rc=$rc wall=$((e-s))s $(grep -c '^VIOLATION' /tmp/runall_${tier}_C$i.log) violations, $(grep -c '^KNOWN' /tmp/runall_${tier}_C$i.log) known; $(tail -1 /tmp/runall_${tier}_C$i.log | cut -c1-150)"
done
