#!/bin/bash
# Runs every seeded change against the check that is supposed to report it (quick tier) and prints one line per seed.
# usage: tools/sweep_seeds.sh [streams] > summary ; a seed counts as detected when its check exits 1 with a VIOLATION line
cd "$(dirname "$0")/.."
streams=${1:-2}
declare -A over=( [C02_a]=C09 [C01_w2a]=C04 )
list=()
for d in seeded/*/; do
  s=$(basename $d)
  p=$(/venv/bin/python -c "import json;print(json.load(open('seeded/$s/meta.json'))['property'])")
  c=${over[$s]:-$p}
  list+=("$s:$c")
done
run_stream() {
  local k=$1
  local i=0
  for sc in "${list[@]}"; do
    if [ $((i % streams)) -eq $k ]; then
      s=${sc%%:*}; c=${sc##*:}
      out=$(/venv/bin/python tools/seeded.py $s $c 2>&1 | grep -E "^$s " | head -1)
      echo "$out"
    fi
    i=$((i+1))
  done
}
for k in $(seq 0 $((streams-1))); do run_stream $k & done
wait
