#!/bin/bash
# usage: tools/ingest_w4.sh <Cxx> "<change>" "<needs>"   — confirm a wave-4 seeded change and store it under seeded/<Cxx>_w4
# confirms: patch applies to /repo HEAD in a fresh scratch worktree, demo passes on /repo and fails with the patch,
# the repository's whole suite passes with the patch.  Removes the scratch worktree afterwards.
set -u
P=$1; CHANGE=$2; NEEDS=$3
S=/tmp/w4/$P; D=/verif/seeded/${P}_w4; W=/tmp/w4confirm_$P
[ -s $S/patch.diff ] && [ -s $S/demo.py ] || { echo "missing patch/demo"; exit 2; }
git -C /repo worktree add -q --detach $W HEAD || exit 2
trap 'git -C /repo worktree remove --force $W' EXIT
git -C $W apply $S/patch.diff || { echo "patch does not apply"; exit 2; }
PYTHONPATH=/repo/src /venv/bin/python $S/demo.py > /tmp/w4_$P.clean 2>&1; RC_CLEAN=$?
PYTHONPATH=$W/src /venv/bin/python $S/demo.py > /tmp/w4_$P.patched 2>&1; RC_PATCH=$?
echo "demo clean rc=$RC_CLEAN patched rc=$RC_PATCH"
[ $RC_CLEAN -eq 0 ] && [ $RC_PATCH -ne 0 ] || { echo "demo does not discriminate"; tail -3 /tmp/w4_$P.clean /tmp/w4_$P.patched; exit 3; }
[ -n "${SUITE_DONE:-}" ] && SUITE="$SUITE_DONE" || SUITE=$(cd $W && PYTHONPATH=$W/src /venv/bin/python -m pytest -q -p no:cacheprovider -n ${NJ:-6} --timeout=900 src/pandapipes/test 2>&1 | tail -1)
echo "suite: $SUITE"
echo "$SUITE" | grep -q "446 passed" || { echo "suite does not pass"; exit 4; }
echo "$SUITE" | grep -qE "[0-9]+ (failed|error)" && { echo "suite fails"; exit 4; }
mkdir -p $D && cp $S/patch.diff $S/demo.py $D/
/venv/bin/python - "$P" "$CHANGE" "$NEEDS" "$SUITE" <<'EOF'
import json, sys
p, change, needs, suite = sys.argv[1:5]
json.dump({"property": p, "wave": 4, "change": change, "needs_to_manifest": needs,
           "origin": "independent sub-agent working only from the property text in its own scratch worktree (told the mechanisms of waves 1-2 to avoid)",
           "confirmed": "tools/ingest_w4.sh: patch applied to a fresh scratch worktree of /repo HEAD; demo.py exit 0 on /repo, exit 1 with the patch; whole suite with the patch: " + suite.strip(),
           "ran": "tools/seeded.py %s_w4 %s" % (p, p)}, open("/verif/seeded/%s_w4/meta.json" % p, "w"), indent=1)
EOF
echo "stored $D"
