#!/bin/bash
# usage: tools/run_some.sh <tier> C01 C05 ...   (like run_all.sh for a list of checks; logs in /tmp/runsome_<tier>_<id>.log)
tier=$1; shift
cd "$(dirname "$0")/.."
for c in "$@"; do
  s=$(date +%s)
  /venv/bin/python -m mc.run $c --tier $tier > /tmp/runsome_${tier}_$c.log 2>&1
  rc=$?
  e=$(date +%s)
  echo "$c rc=$rc wall=$((e-s))s $(grep -c '^VIOLATION' /tmp/runsome_${tier}_$c.log) violations, $(grep -c '^KNOWN' /tmp/runsome_${tier}_$c.log) known; $(tail -1 /tmp/runsome_${tier}_$c.log | cut -c1-250)"
done
