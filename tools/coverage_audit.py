"""Coverage audit: runs every case of a check and prints, per (case dimension, value), how many cases returned 'ok'.
A value with 0 ok cases is a class the check never really examines.  usage: coverage_audit.py C11 [tier]"""
import sys, os, json, collections, importlib
sys.path.insert(0, os.path.join(os.path.dirname(__file__), ".."))
from mc import core


def flat(d, prefix=""):
    for k, v in d.items():
        if isinstance(v, dict):
            yield from flat(v, prefix + k + ".")
        else:
            yield prefix + k, json.dumps(v, sort_keys=True, default=str)[:60]


def main():
    cid = sys.argv[1]
    tier = sys.argv[2] if len(sys.argv) > 2 else "quick"
    mod = importlib.import_module("mc.checks." + cid.lower())
    if hasattr(mod, "warmup"):
        mod.warmup()
    cases = mod.cases(tier)
    res = core.pmap(mod, cases)
    tot, ok = collections.Counter(), collections.Counter()
    for c, r in zip(cases, res):
        st = r["status"] if isinstance(r, dict) else str(r)
        for kv in flat(c):
            tot[kv] += 1
            if st == "ok":
                ok[kv] += 1
    for (k, v) in sorted(tot):
        n, o = tot[(k, v)], ok[(k, v)]
        if len([1 for (k2, _) in tot if k2 == k]) > 40:
            continue
        mark = "   <-- never ok" if o == 0 else ("   <-- low" if o < 0.3 * n else "")
        print("%-28s %-62s ok %5d / %5d%s" % (k, v, o, n, mark))


if __name__ == "__main__":
    main()
