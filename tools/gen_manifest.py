#!/venv/bin/python
"""Regenerates /verif/MANIFEST.json from the table below (kept in one place so it is always valid)."""
import json, os, sys
V = os.path.dirname(os.path.dirname(os.path.abspath(__file__)))
sys.path.insert(0, V)
from tools.manifest_data import CHECKS, NOT_APPLICABLE, HOOK_COMMITS  # noqa

BASE = ("cd /repo && /venv/bin/python -m pytest -ra -q -p no:cacheprovider --timeout=900 "
        "--continue-on-collection-errors")
man = {
    "version": 1,
    "setup_cmd": "/venv/bin/python -m mc.selftest",
    "hooks": {"guard": "PANDAPIPES_VERIF", "enable": "no source hooks are needed; checks import /repo/src directly "
              "(VERIF_REPO_SRC overrides the path) and wrap module attributes from the harness side",
              "baseline_off_cmd": BASE, "source_commits": HOOK_COMMITS, "add_only": True},
    "engines": [
        {"name": "mc", "path": "/verif/mc", "serves_properties": [c["property_id"] for c in CHECKS],
         "kind_free_text": "hand-written bounded-exhaustive explorer for Python: NetSpec enumerators (topology "
                           "skeletons, deviation-bounded products, flag lattices, permutations), explicit-state BFS over "
                           "operation histories on the real code, scripted Newton-driver environment, TLC state-graph "
                           "replay"}],
    "checks": [],
    "notes": "All commands run with cwd=/verif. Exit 0 = held on everything explored (KNOWN-FINDING lines possible), "
             "1 = VIOLATION, 2 = harness error, 3 = inconclusive (coverage floor missed; cannot happen on the "
             "unchanged tree).",
    "not_applicable": NOT_APPLICABLE,
}
for c in CHECKS:
    pid = c["property_id"]
    man["checks"].append({
        "property_id": pid,
        "quick_cmd": "/venv/bin/python -m mc.run %s --tier quick" % pid,
        "thorough_cmd": "/venv/bin/python -m mc.run %s --tier thorough" % pid,
        "evidence_file": "/verif/evidence/%s.json" % pid,
        "replay_cmd_template": "/venv/bin/python -m mc.run %s --replay {path}" % pid,
        "engine": "mc",
        "level_claimed": {"category": c["category"], "text": c["text"], "design_ref": c["design_ref"]},
        "level_note": c["note"],
        "technique": c["technique"],
    })
with open(os.path.join(V, "MANIFEST.json"), "w") as f:
    json.dump(man, f, indent=1)
import jsonschema
jsonschema.validate(man, json.load(open("/root/.vp/MANIFEST.schema.json")))
print("MANIFEST.json written: %d checks, %d not_applicable" % (len(man["checks"]), len(NOT_APPLICABLE)))
