"""C04 finding 2: if the supplied part of the network contains no active branch (e.g. the only pipe behind the
feeder is out of service), pipeflow in mode "sequential"/"bidirectional" with the default use_numba=True crashes
with ValueError (numba max() of an empty array in the thermal derivatives) instead of returning the results of
the supplied junction. mode="hydraulics" and use_numba=False return normally with the expected NaN pattern, and
the same happens for the network with the unsupplied / out-of-service elements deleted."""
import sys
import numpy as np
import pandapipes as pp


def make():
    net = pp.create_empty_network(fluid="water")
    j = pp.create_junctions(net, 2, pn_bar=5, tfluid_k=300)
    pp.create_pipe_from_parameters(net, j[0], j[1], length_km=0.1, inner_diameter_mm=80, in_service=False)
    pp.create_ext_grid(net, j[0], p_bar=5, t_k=350, type="pt")
    pp.create_sink(net, j[1], mdot_kg_per_s=0.1)
    return net


def run(mode, use_numba):
    net = make()
    try:
        pp.pipeflow(net, mode=mode, use_numba=use_numba)
    except Exception as e:  # noqa
        return "%s: %s" % (type(e).__name__, str(e)[:70])
    return "returned p=%s t=%s" % (net.res_junction.p_bar.values, net.res_junction.t_k.values)


bad = []
for mode in ("hydraulics", "sequential", "bidirectional"):
    for use_numba in (False, True):
        r = run(mode, use_numba)
        print("mode=%-13s use_numba=%-5s -> %s" % (mode, use_numba, r))
        if not r.startswith("returned"):
            bad.append((mode, use_numba, r))

if bad:
    print("C04 VIOLATED: junction 0 holds an in-service ext_grid, so it is supplied and the calculation has to "
          "return p/t for it and NaN for the rest; instead:")
    for b in bad:
        print("   mode=%s use_numba=%s raised %s" % b)
    sys.exit(1)
print("ok")
