"""C04 finding 1: an inactive pressure controller (control_active=False, documented as "behaviour similar to
open valve") is an in-service, hydraulically connecting branch, but the default connectivity check treats it
as a one-way edge (DIRECTED flag is set for every pressure controller, active or not). A junction that is
supplied only through the to->from direction of such a controller is declared unsupplied: NaN pressure and
its sink is not served, although the solver itself (check_connectivity=False) supplies it."""
import sys
import numpy as np
import pandapipes as pp

TOL = dict(tol_p=1e-10, tol_m=1e-10, tol_res=1e-8, max_iter_hyd=100)


def make():
    net = pp.create_empty_network(fluid="water")
    j = pp.create_junctions(net, 3, pn_bar=5, tfluid_k=300)
    pp.create_pipe_from_parameters(net, j[1], j[2], length_km=0.1, inner_diameter_mm=80)
    # controller from j0 to j1, NOT controlling -> behaves like an open valve with a loss coefficient
    pp.create_pressure_control(net, j[0], j[1], controlled_junction=j[1], controlled_p_bar=4.0,
                               control_active=False, loss_coefficient=2.)
    pp.create_ext_grid(net, j[2], p_bar=5, t_k=350, type="pt")   # feeder on the "to" side
    pp.create_sink(net, j[0], mdot_kg_per_s=0.1)                   # load on the "from" side
    return net


net = make()
pp.pipeflow(net, **TOL)                       # default: check_connectivity=True
ref = make()
pp.pipeflow(ref, check_connectivity=False, **TOL)   # what the hydraulic model itself calculates

print("default connectivity check : p =", net.res_junction.p_bar.values,
      " sink =", net.res_sink.mdot_kg_per_s.values, " pc mdot =", net.res_press_control.mdot_from_kg_per_s.values)
print("without connectivity check : p =", ref.res_junction.p_bar.values,
      " sink =", ref.res_sink.mdot_kg_per_s.values, " pc mdot =", ref.res_press_control.mdot_from_kg_per_s.values)

errors = []
if np.isnan(net.res_junction.p_bar.values[0]):
    errors.append("junction 0 is reachable from the ext_grid through in-service, hydraulically connecting "
                  "branches (pipe + inactive pressure controller) but gets p_bar = NaN")
if np.isnan(net.res_sink.mdot_kg_per_s.values[0]):
    errors.append("sink at junction 0 is not served (NaN) although the solver serves it with 0.1 kg/s")
if np.isnan(net.res_press_control.mdot_from_kg_per_s.values[0]):
    errors.append("in-service pressure controller between supplied junctions has no results")
if errors:
    print("C04 VIOLATED:\n  " + "\n  ".join(errors))
    sys.exit(1)
print("ok")
