"""C04 finding 4 (interpretation dependent): an out-of-service junction that touches an in-service branch is
silently put back in service by the connectivity check (documented in the docstring of check_connectivity,
default quit_on_inconsistency_connectivity=False). Consequences: the out-of-service junction reports a pressure,
the sink attached to it is served and everything behind it is supplied - the result is that of the network with
the junction IN service, not that of the network with the out-of-service junction deleted."""
import sys
import numpy as np
import pandapipes as pp

TOL = dict(tol_p=1e-10, tol_m=1e-10, tol_res=1e-8, max_iter_hyd=100)


def make(j1_in_service, delete_oos=False):
    net = pp.create_empty_network(fluid="water")
    pp.create_junction(net, 5, 300, index=0)
    if not delete_oos:
        pp.create_junction(net, 5, 300, index=1, in_service=j1_in_service)
        pp.create_junction(net, 5, 300, index=2)
        pp.create_pipe_from_parameters(net, 0, 1, 0.1, 80)
        pp.create_pipe_from_parameters(net, 1, 2, 0.1, 80)
        pp.create_sink(net, 1, 0.3)
        pp.create_sink(net, 2, 0.1)
    pp.create_ext_grid(net, 0, p_bar=5, t_k=300)
    pp.pipeflow(net, **TOL)
    return net


net = make(False)
print("junction 1 out of service :", net.res_junction.p_bar.values, "sinks", net.res_sink.mdot_kg_per_s.values,
      "ext_grid", net.res_ext_grid.mdot_kg_per_s.values)
ref_in = make(True)
print("junction 1 in service     :", ref_in.res_junction.p_bar.values, "sinks", ref_in.res_sink.mdot_kg_per_s.values,
      "ext_grid", ref_in.res_ext_grid.mdot_kg_per_s.values)
ref_del = make(False, delete_oos=True)
print("oos junction + rest deleted:", ref_del.res_junction.p_bar.values, "ext_grid", ref_del.res_ext_grid.mdot_kg_per_s.values)

errors = []
if not np.isnan(net.res_junction.p_bar.at[1]):
    errors.append("out-of-service junction 1 reports p_bar=%.6f" % net.res_junction.p_bar.at[1])
if not np.isnan(net.res_sink.mdot_kg_per_s.values[0]):
    errors.append("sink at out-of-service junction 1 is served (%.2f kg/s)" % net.res_sink.mdot_kg_per_s.values[0])
if not np.isclose(net.res_ext_grid.mdot_kg_per_s.values[0], ref_del.res_ext_grid.mdot_kg_per_s.values[0]):
    errors.append("ext_grid feeds %.2f kg/s; with the out-of-service junction deleted it feeds %.2f kg/s"
                  % (net.res_ext_grid.mdot_kg_per_s.values[0], ref_del.res_ext_grid.mdot_kg_per_s.values[0]))
if errors:
    print("C04 VIOLATED (if in_service=False of a junction is to be honoured):\n  " + "\n  ".join(errors))
    sys.exit(1)
print("ok")
