"""C04 finding 3 (lower confidence - concerns res_junction.t_k, not p_bar): junctions that are not part of the
calculated network ("everything else reports NaN") still report a temperature. In mode="hydraulics" the input
tfluid_k is echoed, in "sequential"/"bidirectional" the option ambient_temperature (293.15 K) is written, while
all branch tables report NaN temperatures for the very same unsupplied part. The number is not a result of any
calculation and changes with an unrelated option."""
import sys
import numpy as np
import pandapipes as pp

TOL = dict(tol_p=1e-10, tol_m=1e-10, tol_res=1e-8, max_iter_hyd=100, max_iter_therm=100, use_numba=False)

net = pp.create_empty_network(fluid="water")
j = pp.create_junctions(net, 4, pn_bar=5, tfluid_k=300)
pp.create_pipe_from_parameters(net, j[0], j[1], 0.1, 80, u_w_per_m2k=5, text_k=280)   # supplied part
pp.create_pipe_from_parameters(net, j[2], j[3], 0.1, 80, u_w_per_m2k=5, text_k=280)   # island without feeder
pp.create_ext_grid(net, j[0], p_bar=5, t_k=350, type="pt")
pp.create_sinks(net, [j[1], j[3]], 0.1)

errors = []
for mode, kw in (("hydraulics", {}), ("sequential", {}), ("sequential", {"ambient_temperature": 250.}),
                 ("bidirectional", {})):
    pp.pipeflow(net, mode=mode, **TOL, **kw)
    rj, rp = net.res_junction, net.res_pipe
    print("mode=%-13s %-28s p_bar=%s t_k=%s | pipe 1: t_from_k=%s t_to_k=%s" % (
        mode, kw, rj.p_bar.values.round(4), rj.t_k.values.round(2), rp.t_from_k.values[1], rp.t_to_k.values[1]))
    unsupplied = np.isnan(rj.p_bar.values)
    assert list(unsupplied) == [False, False, True, True]
    assert np.isnan(rp.loc[1].values.astype(float)).all()     # the branch table is all NaN for the island
    if not np.isnan(rj.t_k.values[unsupplied]).all():
        errors.append("mode=%s %s: unsupplied junctions 2,3 report t_k=%s instead of NaN"
                      % (mode, kw, rj.t_k.values[unsupplied]))
if errors:
    print("C04 VIOLATED:\n  " + "\n  ".join(errors))
    sys.exit(1)
print("ok")
