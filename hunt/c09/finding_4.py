"""C09 / reversal, water in mode="bidirectional": a stagnant dead-end pipe (no consumer behind it) between junctions of
different height reports a different pressure at its end depending on its declared orientation (and on its number of
sections). With zero flow there is no direction switch, the density is the mean of rho(T of the declared from-node) and
rho(T_outlet = ambient): declared towards the dead end it mixes the hot supply density with the ambient one, declared
away from it both values are the ambient density. The hydrostatic head of the same water column differs."""
import sys
import numpy as np
import pandapipes as pp

TOL = dict(tol_p=1e-10, tol_m=1e-10, tol_res=1e-8, tol_T=1e-10, max_iter_bidirect=200)


def build(reverse, sections=1):
    net = pp.create_empty_network(fluid="water")
    j = pp.create_junctions(net, 3, pn_bar=5.0, tfluid_k=360., height_m=[0., 0., -20.])
    pp.create_ext_grid(net, j[0], p_bar=5.0, t_k=360.)
    pp.create_pipe_from_parameters(net, j[0], j[1], length_km=0.5, inner_diameter_mm=100., k_mm=0.1, u_w_per_m2k=2.)
    pp.create_sink(net, j[1], 2.)
    a, b = (j[2], j[0]) if reverse else (j[0], j[2])  # dead end, nothing connected to j[2]
    pp.create_pipe_from_parameters(net, a, b, length_km=0.5, inner_diameter_mm=100., k_mm=0.1, u_w_per_m2k=2.,
                                   sections=sections)
    return net


fails = []
for numba in [False, True]:
    res = {}
    for key, (rev, sec) in {"declared 0->2": (False, 1), "declared 2->0": (True, 1), "0->2, 4 sections": (False, 4)}.items():
        net = build(rev, sec)
        pp.pipeflow(net, mode="bidirectional", use_numba=numba, **TOL)
        assert net.converged and abs(net.res_pipe.mdot_from_kg_per_s[1]) < 1e-9
        res[key] = net.res_junction.p_bar.values
        print(f"use_numba={numba} {key:18s} p_bar = {res[key]}  t_k = {net.res_junction.t_k.values}")
    ref = res["declared 0->2"]
    for key, val in res.items():
        d = np.abs(val - ref).max()
        if d > 1e-7:
            fails.append((numba, key, float(d)))
if fails:
    print("VIOLATION: pressure at the dead end depends on the description of the stagnant pipe (bar):", fails)
    sys.exit(1)
print("ok")
