"""C09 / reversal, gas with temperature calculation (mode="sequential"): the junction results (p, T) and the mass flow of
a cooling gas pipe are identical for both declared orientations, but res_pipe.v_from / v_to / v_mean / normfactor_* of
the reversed pipe are not the swapped (and sign-flipped) values of the original pipe.
result_extraction.get_branch_results_gas pairs the pressure of the declared from-end with the temperature of the
flow inlet (numpy) resp. get_gas_vel_numba takes the from-node temperature without the direction switch (numba)."""
import sys
import numpy as np
import pandapipes as pp

TOL = dict(tol_p=1e-10, tol_m=1e-10, tol_res=1e-8, tol_T=1e-10)


def build(reverse):
    net = pp.create_empty_network(fluid="lgas")
    j = pp.create_junctions(net, 2, pn_bar=1.0, tfluid_k=360.)
    pp.create_ext_grid(net, j[0], p_bar=1.0, t_k=360.)
    a, b = (j[1], j[0]) if reverse else (j[0], j[1])
    pp.create_pipe_from_parameters(net, a, b, length_km=1., inner_diameter_mm=100., k_mm=0.1, u_w_per_m2k=5.,
                                   text_k=280.)
    pp.create_sink(net, j[1], 0.05)
    return net


fails = []
for numba in [False, True]:
    n0, n1 = build(False), build(True)
    for n in (n0, n1):
        pp.pipeflow(n, mode="sequential", use_numba=numba, **TOL)
    assert np.allclose(n0.res_junction.values, n1.res_junction.values, rtol=1e-10), "junction results differ"
    a, b = n0.res_pipe.loc[0], n1.res_pipe.loc[0]
    assert np.isclose(a.mdot_from_kg_per_s, -b.mdot_from_kg_per_s, rtol=1e-10)
    expected = {"v_from_m_per_s": -a.v_to_m_per_s, "v_to_m_per_s": -a.v_from_m_per_s,
                "v_mean_m_per_s": -a.v_mean_m_per_s, "normfactor_from": a.normfactor_to,
                "normfactor_to": a.normfactor_from, "t_from_k": a.t_to_k, "t_to_k": a.t_from_k,
                "p_from_bar": a.p_to_bar, "p_to_bar": a.p_from_bar}
    print(f"use_numba={numba}: T in/out = {a.t_from_k:.2f} / {a.t_to_k:.2f} K")
    for col, exp in expected.items():
        ok = np.isclose(b[col], exp, rtol=1e-7)
        print(f"   {col:18s} reversed pipe {b[col]: .6f}   expected from original {exp: .6f}   {'' if ok else '<-- differs'}")
        if not ok:
            fails.append((numba, col, float(b[col]), float(exp)))
if fails:
    print("VIOLATION: gas velocities / norm factors of a reversed pipe are not the mirrored values:", fails)
    sys.exit(1)
print("ok")
