"""C09 / reversal: a pipe attached to an ext-grid junction whose t_k differs from the junction's tfluid_k gives
different hydraulic results (pressures, Reynolds number, lambda) depending on its declared from/to orientation.
The branch start temperature TOUTINIT is copied from the to-junction's tfluid_k before the ext grid temperature
is known, the from-side temperature is read from the node pit after the ext grid wrote t_k into it."""
import sys
import numpy as np
import pandapipes as pp

TOL = dict(tol_p=1e-10, tol_m=1e-10, tol_res=1e-8)


def build(reverse, fluid):
    net = pp.create_empty_network(fluid=fluid)
    j = pp.create_junctions(net, 3, pn_bar=1.0, tfluid_k=300.)
    pp.create_ext_grid(net, j[0], p_bar=5. if fluid == "water" else 1., t_k=360.)
    a, b = (j[1], j[0]) if reverse else (j[0], j[1])
    pp.create_pipe_from_parameters(net, a, b, length_km=1., inner_diameter_mm=100., k_mm=0.1)
    pp.create_pipe_from_parameters(net, j[1], j[2], length_km=1., inner_diameter_mm=100., k_mm=0.1)
    pp.create_sink(net, j[2], 2. if fluid == "water" else 0.05)
    return net


fails = []
for fluid in ["water", "lgas"]:
    for numba in [False, True]:
        n0, n1 = build(False, fluid), build(True, fluid)
        for n in (n0, n1):
            pp.pipeflow(n, mode="hydraulics", use_numba=numba, **TOL)
        # the property: only the sign of the flow of pipe 0 flips, everything else is identical
        assert np.isclose(n0.res_pipe.mdot_from_kg_per_s[0], -n1.res_pipe.mdot_from_kg_per_s[0], rtol=1e-9)
        dp = np.abs(n0.res_junction.p_bar - n1.res_junction.p_bar).max()
        dre = abs(n0.res_pipe.reynolds[0] - n1.res_pipe.reynolds[0]) / n0.res_pipe.reynolds[0]
        print(f"{fluid:6s} numba={numba}: max |dp junction| = {dp:.3e} bar, rel. diff. Reynolds pipe 0 = {dre:.3e}")
        print("   p_bar original:", n0.res_junction.p_bar.values, " reversed:", n1.res_junction.p_bar.values)
        if dp > 1e-7 or dre > 1e-7:
            fails.append((fluid, numba, dp, dre))
if fails:
    print("VIOLATION: reversing pipe 0 changes junction pressures / Reynolds number:", fails)
    sys.exit(1)
print("ok")
