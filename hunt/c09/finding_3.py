"""C09 / reversal, gas in mode="bidirectional" (hydraulics and temperature iterated together): the junction pressures
depend on the declared orientation of a cooling pipe. derivatives_hydraulic_comp_* build the mean gas temperature of a
branch as (T[declared from-node] + T_outlet) / 2; for a flow against the declared direction the from-node is the outlet
itself, so the pipe is evaluated at (about) its outlet temperature instead of the mean of inlet and outlet."""
import sys
import numpy as np
import pandapipes as pp

TOL = dict(tol_p=1e-10, tol_m=1e-10, tol_res=1e-8, tol_T=1e-10, max_iter_bidirect=200)


def build(reverse):
    net = pp.create_empty_network(fluid="lgas")
    j = pp.create_junctions(net, 2, pn_bar=1.0, tfluid_k=360.)
    pp.create_ext_grid(net, j[0], p_bar=1.0, t_k=360.)
    a, b = (j[1], j[0]) if reverse else (j[0], j[1])
    pp.create_pipe_from_parameters(net, a, b, length_km=1., inner_diameter_mm=100., k_mm=0.1, u_w_per_m2k=5.,
                                   text_k=280.)
    pp.create_sink(net, j[1], 0.05)
    return net


fails = []
for numba in [False, True]:
    n0, n1 = build(False), build(True)
    for n in (n0, n1):
        pp.pipeflow(n, mode="bidirectional", use_numba=numba, **TOL)
        assert n.converged
    assert np.isclose(n0.res_pipe.mdot_from_kg_per_s[0], -n1.res_pipe.mdot_from_kg_per_s[0], rtol=1e-9)
    assert np.allclose(n0.res_junction.t_k.values, n1.res_junction.t_k.values, rtol=1e-9)
    p0, p1 = n0.res_junction.p_bar.values, n1.res_junction.p_bar.values
    dl0, dl1 = n0.res_pipe.dp_friction_loss_bar[0], n1.res_pipe.dp_friction_loss_bar[0]
    print(f"use_numba={numba}: p_bar original {p0}, reversed {p1}; friction loss {dl0:.6f} vs {dl1:.6f} bar")
    if np.abs(p0 - p1).max() > 1e-7:
        fails.append((numba, float(np.abs(p0 - p1).max())))
if fails:
    print("VIOLATION: junction pressures change when the pipe is declared in the opposite direction:", fails)
    sys.exit(1)
print("ok")
