"""C03 / pump clause: in mode="sequential" the pump lift is taken from the curve at mdot/rho(T before the
heat calculation), while the reported vdot_m3_per_s uses the temperatures of the returned solution."""
import sys
import pandapipes as pp

net = pp.create_empty_network(fluid="water")
j = pp.create_junctions(net, 4, pn_bar=3, tfluid_k=293.15)
pp.create_ext_grid(net, j[0], p_bar=3, t_k=360.)            # hot feed, junction start value 293.15 K
pp.create_pipe_from_parameters(net, j[0], j[1], 0.1, 100., k_mm=.1, u_w_per_m2k=5, text_k=283.)
pp.create_pump(net, j[1], j[2], "P1")
pp.create_pipe_from_parameters(net, j[2], j[3], 0.5, 100., k_mm=.1, u_w_per_m2k=5, text_k=283.)
pp.create_sink(net, j[3], 5.)

bad = []
for mode in ["sequential", "bidirectional"]:
    pp.pipeflow(net, mode=mode, tol_p=1e-10, tol_m=1e-10, tol_res=1e-8, tol_T=1e-9,
                max_iter_hyd=100, max_iter_bidirect=200)
    assert net.converged
    r = net.res_pump.iloc[0]
    curve = net.std_types["pump"]["P1"].get_pressure(r.vdot_m3_per_s)
    print("%-13s T_pump=%.2f K  vdot=%.8f m3/s  deltap_bar=%.8f  curve(vdot)=%.8f  diff=%.2e"
          % (mode, r.t_from_k, r.vdot_m3_per_s, r.deltap_bar, curve, r.deltap_bar - curve))
    if abs(r.deltap_bar - curve) > 1e-6:
        bad.append(mode)
if bad:
    sys.exit("VIOLATION: pump lift differs from its characteristic curve at the reported volume flow "
             "in mode(s) %s" % bad)
print("ok")
