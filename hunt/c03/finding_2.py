"""C03 / compressor clause: with different heights of the two junctions the compressor (forward flow) does not
produce its absolute pressure ratio between its junctions (gas: ~0.3 % off at 50 m, water: far off)."""
import sys
import pandapipes as pp
from pandapipes.component_models.component_toolbox import p_correction_height_air as p_amb

bad = []
for fluid in ["lgas", "hydrogen", "water"]:
    for h in [0., 50.]:
        net = pp.create_empty_network(fluid=fluid)
        j = pp.create_junctions(net, 4, 5, 293.15, height_m=[0, 0, h, h])
        pp.create_ext_grid(net, j[0], 5., 293.15)
        pp.create_pipe_from_parameters(net, j[0], j[1], .1, 100.)
        pp.create_compressor(net, j[1], j[2], pressure_ratio=1.5)
        pp.create_pipe_from_parameters(net, j[2], j[3], .1, 100.)
        pp.create_sink(net, j[3], .1)
        pp.pipeflow(net, tol_p=1e-10, tol_m=1e-10, tol_res=1e-8, max_iter_hyd=100)
        r = net.res_compressor.iloc[0]
        assert net.converged and r.mdot_from_kg_per_s > 0
        ratio = (r.p_to_bar + p_amb(h)) / (r.p_from_bar + p_amb(0.))
        print("%-9s dh=%4.0f m  p_abs_to/p_abs_from=%.6f (set 1.5)" % (fluid, h, ratio))
        if abs(ratio - 1.5) > 1e-6:
            bad.append((fluid, h, round(ratio, 5)))
if bad:
    sys.exit("VIOLATION: absolute pressure ratio of the compressor not met: %s" % bad)
print("ok")
