"""C16: create_ext_grids with per-element pressures and no temperature (t_k=None, or None entries in a list) raises
TypeError, although the same elements are created one by one with create_ext_grid (t_k defaults to None there).
Bulk creation is not equivalent to one-by-one creation."""
import sys, logging, warnings
import pandapipes as pp
logging.disable(logging.CRITICAL); warnings.simplefilter("ignore")

def mk():
    net = pp.create_empty_network(fluid="lgas")
    pp.create_junctions(net, 3, 5.0, 300.0)
    return net

bad = []
cases = [("p_bar=[5.0, 4.0], t_k=None", [5.0, 4.0], None, [(5.0, None), (4.0, None)]),
         ("p_bar=[5.0, None], t_k=[300.0, 310.0]", [5.0, None], [300.0, 310.0], [(5.0, 300.0), (None, 310.0)]),
         ("p_bar=None, t_k=[300.0, 310.0]", None, [300.0, 310.0], [(None, 300.0), (None, 310.0)])]
for label, p, t, singles in cases:
    a = mk()
    for j, (pi, ti) in zip([0, 1], singles):
        pp.create_ext_grid(a, j, p_bar=pi, t_k=ti)          # works
    b = mk()
    try:
        pp.create_ext_grids(b, [0, 1], p, t)
        if not (a.ext_grid.type.tolist() == b.ext_grid.type.tolist()):
            bad.append("%s: types differ %s vs %s" % (label, a.ext_grid.type.tolist(), b.ext_grid.type.tolist()))
    except Exception as e:
        bad.append("create_ext_grids(junctions=[0, 1], %s) raised %s: %s -- one by one gives types %s" % (
            label, type(e).__name__, str(e)[:50], a.ext_grid.type.tolist()))
if bad:
    print("VIOLATION (bulk != one by one):\n  " + "\n  ".join(bad)); sys.exit(1)
print("ok")
