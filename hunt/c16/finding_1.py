"""C16: create_pump_from_parameters without any curve data creates a pump that references a std type that
does not exist (create_pump refuses the same reference); the pipeflow then silently uses another pump type."""
import sys, logging, warnings
import numpy as np
import pandapipes as pp
logging.disable(logging.CRITICAL); warnings.simplefilter("ignore")

def build():
    net = pp.create_empty_network(fluid="water")
    pp.create_junctions(net, 3, 3.0, 300.0)
    pp.create_ext_grid(net, 0, 3.0, 300.0)
    pp.create_pipe_from_parameters(net, 1, 2, 0.1, 80.0)
    pp.create_sink(net, 2, 4.0)
    return net

net = build()
# neither (pressure_list, flowrate_list, reg_polynomial_degree) nor poly_coefficents: all of them are optional
idx = pp.create_pump_from_parameters(net, 0, 1, "ghost_type")
msgs = []
if "ghost_type" not in net.std_types["pump"]:
    msgs.append("pump %s was created with std_type %r, which is not in net.std_types['pump'] (%s)"
                % (idx, net.pump.at[idx, "std_type"], sorted(net.std_types["pump"])))
    try:
        pp.create_pump(build(), 0, 1, "ghost_type")
        msgs.append("create_pump accepted the unknown type as well")
    except UserWarning as e:
        msgs.append("create_pump refuses the same reference: %s" % str(e)[:70])
    try:
        pp.pipeflow(net, use_numba=False)
        ref = build(); pp.create_pump(ref, 0, 1, sorted(ref.std_types["pump"])[0]); pp.pipeflow(ref, use_numba=False)
        msgs.append("pipeflow runs anyway: deltap_bar=%.4f (a net with pump type %r gives %.4f)" % (
            net.res_pump.deltap_bar.iat[0], sorted(ref.std_types["pump"])[0], ref.res_pump.deltap_bar.iat[0]))
    except Exception as e:
        msgs.append("pipeflow raised %s" % type(e).__name__)
    print("VIOLATION (reference to a non-existing standard type accepted):\n  " + "\n  ".join(msgs))
    sys.exit(1)
print("ok")
