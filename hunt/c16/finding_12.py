"""C16: documented defaults vs the values that end up in the table, for the create functions wrapped by
@deprecated_input (their signature is hidden behind wrap(*args, **kwargs), so signature-based doc checks skip them)
and for arguments documented as 'default None' that are in fact required."""
import sys, logging, warnings, re, inspect
import pandapipes as pp
logging.disable(logging.CRITICAL); warnings.simplefilter("ignore")

net = pp.create_empty_network(fluid="water")
pp.create_junctions(net, 3, 5.0, 300.0)
bad = []

def documented_default(fn, param):
    doc = fn.__doc__ if fn.__doc__ else [c.cell_contents for c in fn.__closure__ if callable(c.cell_contents)][0].__doc__
    m = re.search(r":type %s:[^\n]*default\s+([^\n]+)" % param, doc)
    return m.group(1).strip().strip('"\'') if m else None

# 1) create_valve: ':type type: str, default None' - the table gets 'valve'
v = pp.create_valve(net, 0, 1, "ju", 40.0)
doc = documented_default(pp.create_valve, "type")
if str(net.valve.at[v, "type"]) != doc:
    bad.append("create_valve: documented default of type is %s, the created row has type=%r" % (doc, net.valve.at[v, "type"]))
# 2) create_heat_exchangers: ':type type: ..., default "heat exchanger"' - the table gets 'heat_exchanger'
h = pp.create_heat_exchangers(net, [0], [1], 100.0, 50.0)
doc = documented_default(pp.create_heat_exchangers, "type")
if str(net.heat_exchanger.at[h[0], "type"]) != doc:
    bad.append("create_heat_exchangers: documented default of type is %r, the created row has type=%r" % (doc, net.heat_exchanger.at[h[0], "type"]))
# 3) mdot_kg_per_s documented as 'float, default None' (i.e. optional), but omitting it is refused
for name, args in [("create_sink", (0,)), ("create_source", (0,)), ("create_mass_storage", (0,)), ("create_sinks", ([0, 1],)), ("create_sources", ([0, 1],))]:
    fn = getattr(pp, name)
    if documented_default(fn, "mdot_kg_per_s") == "None":
        try:
            fn(net, *args)
        except TypeError as e:
            bad.append("%s: mdot_kg_per_s is documented with 'default None' but the call without it raises TypeError (%s)" % (name, str(e)[:60]))
if bad:
    print("VIOLATION (documented defaults):\n  " + "\n  ".join(bad)); sys.exit(1)
print("ok")
