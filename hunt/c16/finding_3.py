"""C16: None / NaN in a boolean argument (in_service, opened, control_active): the bulk functions and create_valve
raise UserWarning only after the rows were written, and leave the boolean column with dtype object."""
import sys, logging, warnings
import pandas as pd
import pandapipes as pp
logging.disable(logging.CRITICAL); warnings.simplefilter("ignore")


def snap(net):
    s = {k: v.copy(deep=True) for k, v in net.items() if isinstance(v, pd.DataFrame)}
    s["__components"] = [c.__name__ for c in net.component_list]
    s["__std_types"] = {c: sorted(t) for c, t in net.std_types.items()} if "std_types" in net else None
    return s

def diff(a, b):
    out = []
    for k in sorted(set(a) | set(b)):
        if k.startswith("__"):
            if a.get(k) != b.get(k):
                out.append("%s: %s -> %s" % (k, a.get(k), b.get(k)))
        elif k not in a or k not in b:
            out.append("table %s appeared/disappeared" % k)
        else:
            x, y = a[k], b[k]
            if len(x) != len(y):
                out.append("table %s: %d -> %d rows (index %s -> %s)" % (k, len(x), len(y), list(x.index), list(y.index)))
            elif dict(x.dtypes) != dict(y.dtypes):
                ch = {c: (str(x[c].dtype), str(y[c].dtype)) for c in x.columns if c in y and x[c].dtype != y[c].dtype}
                out.append("table %s: dtypes changed %s" % (k, ch))
            elif not x.equals(y):
                out.append("table %s: values changed" % k)
    return out

def mk():
    net = pp.create_empty_network(fluid="water")
    pp.create_junctions(net, 3, 5.0, 300.0)
    pp.create_sink(net, 2, 0.1)
    pp.create_valve(net, 0, 1, "ju", 40.0)
    pp.create_flow_control(net, 1, 2, 0.1)
    return net

calls = [
    ("create_junctions(in_service=[True, None])", lambda n: pp.create_junctions(n, 2, 5.0, 300.0, in_service=[True, None])),
    ("create_sinks(in_service=[True, None])", lambda n: pp.create_sinks(n, [0, 1], 0.1, in_service=[True, None])),
    ("create_sinks(in_service=None)", lambda n: pp.create_sinks(n, [0, 1], 0.1, in_service=None)),
    ("create_valves(opened=[True, None])", lambda n: pp.create_valves(n, [0, 1], [2, 2], "ju", 40.0, opened=[True, None])),
    ("create_flow_controls(control_active=[None, True])", lambda n: pp.create_flow_controls(n, [0, 1], [1, 2], 0.1, control_active=[None, True])),
    ("create_pipes_from_parameters(in_service=[True, float('nan')])",
     lambda n: pp.create_pipes_from_parameters(n, [0, 1], [1, 2], 0.1, 50.0, in_service=[True, float("nan")])),
    ("create_valve(opened=None)  [single]", lambda n: pp.create_valve(n, 0, 2, "ju", 40.0, opened=None)),
]
bad = []
for label, f in calls:
    net = mk(); before = snap(net)
    try:
        f(net)
    except Exception as e:
        d = diff(before, snap(net))
        if d:
            bad.append("%s raised %s but changed the net: %s" % (label, type(e).__name__, d))
if bad:
    print("VIOLATION (rejected call changed the net / dtypes):\n  " + "\n  ".join(bad)); sys.exit(1)
print("ok")
