"""C16: junction labels outside the uint32 range (negative, or >= 2**32) are accepted by create_junction(index=...),
but the junction reference columns are uint32: the reference silently wraps to ANOTHER junction / a non-existing
one (bulk), or the reference column loses its dtype (single)."""
import sys, logging, warnings
import pandapipes as pp
logging.disable(logging.CRITICAL); warnings.simplefilter("ignore")

bad = []
net = pp.create_empty_network(fluid="water")
pp.create_junctions(net, 6, 5.0, 300.0)                    # junctions 0..5
big = 2 ** 32 + 5
pp.create_junction(net, 5.0, 300.0, index=big)
i = pp.create_pipe_from_parameters(net, 0, big, 0.1, 50.0)  # existence check passes: junction `big` exists
if net.pipe.at[i, "to_junction"] != big:
    bad.append("create_pipe_from_parameters(to_junction=%d) stored to_junction=%d (a different, existing junction)"
               % (big, net.pipe.at[i, "to_junction"]))
net = pp.create_empty_network(fluid="water")
pp.create_junctions(net, 2, 5.0, 300.0)
pp.create_junction(net, 5.0, 300.0, index=-1)
idx = pp.create_sinks(net, [-1, 0], 0.1)
if not set(net.sink.junction) <= set(net.junction.index):
    bad.append("create_sinks(junctions=[-1, 0]) stored junction=%s; junction table index is %s -> dangling reference"
               % (net.sink.junction.tolist(), net.junction.index.tolist()))
net2 = pp.create_empty_network(fluid="water")
pp.create_junctions(net2, 2, 5.0, 300.0)
pp.create_junction(net2, 5.0, 300.0, index=-1)
dt0 = net2.sink.junction.dtype
pp.create_sink(net2, -1, 0.1)
if net2.sink.junction.dtype != dt0:
    bad.append("create_sink(junction=-1): dtype of net.sink.junction %s -> %s (bulk stores %s for the same element)"
               % (dt0, net2.sink.junction.dtype, net.sink.junction.tolist()[0]))
if bad:
    print("VIOLATION (referential integrity / dtypes with non-default junction labels):\n  " + "\n  ".join(bad)); sys.exit(1)
print("ok")
