"""C16: heat consumer parameter rule 'exactly two of qext_w, controlled_mdot_kg_per_s, deltat_k / treturn_k':
create_heat_consumer counts NaN as a given value, create_heat_consumers counts NaN as missing. The same element is
accepted by the single function (with effectively ONE parameter) and refused by the bulk function."""
import sys, logging, warnings
import numpy as np
import pandapipes as pp
logging.disable(logging.CRITICAL); warnings.simplefilter("ignore")

def mk():
    net = pp.create_empty_network(fluid="water")
    pp.create_junctions(net, 2, 5.0, 350.0)
    return net

out = {}
for label, f in [("single", lambda n: pp.create_heat_consumer(n, 0, 1, qext_w=np.nan, controlled_mdot_kg_per_s=0.1)),
                 ("bulk", lambda n: pp.create_heat_consumers(n, [0], [1], qext_w=[np.nan], controlled_mdot_kg_per_s=[0.1]))]:
    net = mk()
    try:
        f(net); out[label] = "accepted, row: %s" % net.heat_consumer[["qext_w", "controlled_mdot_kg_per_s", "deltat_k", "treturn_k"]].iloc[0].tolist()
    except Exception as e:
        out[label] = "refused (%s)" % type(e).__name__
if out["single"].split(",")[0].split(" ")[0] != out["bulk"].split(" ")[0]:
    print("VIOLATION (bulk != one by one; forbidden parameter combination accepted):\n  create_heat_consumer(qext_w=nan, controlled_mdot_kg_per_s=0.1): %s\n"
          "  create_heat_consumers(same values):                            %s" % (out["single"], out["bulk"]))
    sys.exit(1)
print("ok")
