"""C16: create_valves(et='pi') checks that each valve's junction is an end of ANY of the pipes named in the call,
not of its own pipe. A valve at junction 0 'on' pipe 1 (which connects junctions 1-2) is accepted in bulk, while
create_valve refuses exactly this element ('Pipe 1 not connected to junction 0')."""
import sys, logging, warnings
import pandapipes as pp
logging.disable(logging.CRITICAL); warnings.simplefilter("ignore")

def mk():
    net = pp.create_empty_network(fluid="water")
    pp.create_junctions(net, 3, 5.0, 300.0)
    pp.create_pipe_from_parameters(net, 0, 1, 0.1, 50.0)   # pipe 0: 0-1
    pp.create_pipe_from_parameters(net, 1, 2, 0.1, 50.0)   # pipe 1: 1-2
    return net

single = None
try:
    pp.create_valve(mk(), 0, 1, "pi", 40.0)
except UserWarning as e:
    single = str(e)
net = mk()
try:
    idx = pp.create_valves(net, [0, 1], [1, 0], "pi", 40.0)    # valve 0: junction 0 / pipe 1 (not connected)
except UserWarning:
    print("ok"); sys.exit(0)
v = net.valve.loc[idx[0]]
p = net.pipe.loc[v.element]
print("VIOLATION (dangling junction-pipe reference accepted by the bulk function):\n"
      "  create_valves accepted valve %s: junction %s, pipe %s (from %s to %s)\n  create_valve for that valve: %s"
      % (idx[0], v.junction, v.element, p.from_junction, p.to_junction, "refused: " + single if single else "accepted"))
sys.exit(1)
