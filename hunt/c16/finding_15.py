"""C16: create_pressure_controls evaluates its 'controlled elsewhere' warning AFTER the rows are written, with
list != list (one Python bool) and index[bool]. A VALID call with plain lists and index=[4] for one controller whose
controlled junction is a third junction raises IndexError - and the row is in the table nevertheless.
create_pressure_control accepts the same element."""
import sys, logging, warnings
import pandas as pd
import pandapipes as pp
logging.disable(logging.CRITICAL); warnings.simplefilter("ignore")


def snap(net):
    s = {k: v.copy(deep=True) for k, v in net.items() if isinstance(v, pd.DataFrame)}
    s["__components"] = [c.__name__ for c in net.component_list]
    s["__std_types"] = {c: sorted(t) for c, t in net.std_types.items()} if "std_types" in net else None
    return s

def diff(a, b):
    out = []
    for k in sorted(set(a) | set(b)):
        if k.startswith("__"):
            if a.get(k) != b.get(k):
                out.append("%s: %s -> %s" % (k, a.get(k), b.get(k)))
        elif k not in a or k not in b:
            out.append("table %s appeared/disappeared" % k)
        else:
            x, y = a[k], b[k]
            if len(x) != len(y):
                out.append("table %s: %d -> %d rows (index %s -> %s)" % (k, len(x), len(y), list(x.index), list(y.index)))
            elif dict(x.dtypes) != dict(y.dtypes):
                ch = {c: (str(x[c].dtype), str(y[c].dtype)) for c in x.columns if c in y and x[c].dtype != y[c].dtype}
                out.append("table %s: dtypes changed %s" % (k, ch))
            elif not x.equals(y):
                out.append("table %s: values changed" % k)
    return out

def mk():
    net = pp.create_empty_network(fluid="water")
    pp.create_junctions(net, 3, 5.0, 300.0)
    pp.create_pipe_from_parameters(net, 1, 2, 0.1, 50.0)
    return net

ref = mk()
pp.create_pressure_control(ref, 0, 1, 2, 4.0, index=4)          # accepted: junction 2 is reachable from junction 1
net = mk(); before = snap(net)
try:
    pp.create_pressure_controls(net, [0], [1], [2], 4.0, index=[4])
    print("ok"); sys.exit(0)
except Exception as e:
    d = diff(before, snap(net))
    print("VIOLATION (valid bulk call raises, and the raising call changed the net):\n"
          "  create_pressure_controls(net, [0], [1], [2], 4.0, index=[4]) raised %s: %s\n  net changed: %s\n"
          "  create_pressure_control(net, 0, 1, 2, 4.0, index=4) created row %s" % (type(e).__name__, e, d, ref.press_control.index.tolist()))
    sys.exit(1)
