"""C16: create_valves refuses a valid call when et is a numpy array (documented: 'Iterable(str) or str'):
ValueError 'truth value of an array is ambiguous'. The same values as a list, or one by one, are accepted."""
import sys, logging, warnings
import numpy as np
import pandapipes as pp
logging.disable(logging.CRITICAL); warnings.simplefilter("ignore")

def mk():
    net = pp.create_empty_network(fluid="water")
    pp.create_junctions(net, 3, 5.0, 300.0)
    pp.create_pipe_from_parameters(net, 1, 2, 0.1, 50.0)
    return net

a = mk()
pp.create_valve(a, 0, 1, "ju", 40.0); pp.create_valve(a, 1, 0, "pi", 40.0)
b = mk()
pp.create_valves(b, [0, 1], [1, 0], ["ju", "pi"], 40.0)
assert a.valve[["junction", "element", "et"]].equals(b.valve[["junction", "element", "et"]])
c = mk()
try:
    pp.create_valves(c, np.array([0, 1]), np.array([1, 0]), np.array(["ju", "pi"]), 40.0)
except Exception as e:
    print("VIOLATION (valid bulk call refused): create_valves(..., et=np.array(['ju', 'pi'])) raised %s: %s\n"
          "  (et as a list and one-by-one creation both succeed)" % (type(e).__name__, e))
    sys.exit(1)
print("ok")
