"""C16: omitted optional text arguments (name; std_type of create_pipes_from_parameters) end up as '' when a bulk
function fills an EMPTY table, as NaN when it appends to a populated table, and as None with the single functions.
`net.pipe.std_type == ''` is a reference to a standard type that does not exist; `name.isnull()` differs."""
import sys, logging, warnings
import pandas as pd
import pandapipes as pp
logging.disable(logging.CRITICAL); warnings.simplefilter("ignore")

def mk():
    net = pp.create_empty_network(fluid="water")
    pp.create_junctions(net, 3, 5.0, 300.0)
    return net

a = mk()
pp.create_pipe_from_parameters(a, 0, 1, 0.1, 50.0); pp.create_pipe_from_parameters(a, 1, 2, 0.1, 50.0)
b = mk()
pp.create_pipes_from_parameters(b, [0, 1], [1, 2], 0.1, 50.0)
c = mk()
pp.create_pipe_from_parameters(c, 0, 1, 0.1, 50.0); pp.create_pipes_from_parameters(c, [1], [2], 0.1, 50.0)
rows = []
for col in ("name", "std_type"):
    va, vb, vc = a.pipe[col].tolist(), b.pipe[col].tolist(), c.pipe[col].tolist()
    if not (pd.isnull(va).tolist() == pd.isnull(vb).tolist() == pd.isnull(vc).tolist()):
        rows.append("pipe.%s: one by one %r | bulk into empty table %r | single then bulk %r" % (col, va, vb, vc))
if rows:
    print("VIOLATION (bulk != one by one for omitted optional arguments):\n  " + "\n  ".join(rows)); sys.exit(1)
print("ok")
