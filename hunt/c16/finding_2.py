"""C16: create_pipes / create_pipes_from_parameters with a geodata list of the wrong length raise, but only after
the pipe rows have been written (the rejected call is not atomic)."""
import sys, logging, warnings
import pandas as pd
import pandapipes as pp
logging.disable(logging.CRITICAL); warnings.simplefilter("ignore")


def snap(net):
    s = {k: v.copy(deep=True) for k, v in net.items() if isinstance(v, pd.DataFrame)}
    s["__components"] = [c.__name__ for c in net.component_list]
    s["__std_types"] = {c: sorted(t) for c, t in net.std_types.items()} if "std_types" in net else None
    return s

def diff(a, b):
    out = []
    for k in sorted(set(a) | set(b)):
        if k.startswith("__"):
            if a.get(k) != b.get(k):
                out.append("%s: %s -> %s" % (k, a.get(k), b.get(k)))
        elif k not in a or k not in b:
            out.append("table %s appeared/disappeared" % k)
        else:
            x, y = a[k], b[k]
            if len(x) != len(y):
                out.append("table %s: %d -> %d rows (index %s -> %s)" % (k, len(x), len(y), list(x.index), list(y.index)))
            elif dict(x.dtypes) != dict(y.dtypes):
                ch = {c: (str(x[c].dtype), str(y[c].dtype)) for c in x.columns if c in y and x[c].dtype != y[c].dtype}
                out.append("table %s: dtypes changed %s" % (k, ch))
            elif not x.equals(y):
                out.append("table %s: values changed" % k)
    return out

bad = []
for label, fn, args in [
        ("create_pipes_from_parameters", pp.create_pipes_from_parameters, ([0, 1], [1, 2], 0.1, 50.0)),
        ("create_pipes", pp.create_pipes, ([0, 1], [1, 2], "80_GGG", 0.1))]:
    net = pp.create_empty_network(fluid="water")
    pp.create_junctions(net, 3, 5.0, 300.0)
    pp.create_pipe_from_parameters(net, 0, 2, 0.1, 50.0, geodata=[(0, 0), (2, 2)])
    before = snap(net)
    geodata = [[(0, 0), (1, 1)], [(1, 1), (2, 2)], [(2, 2), (3, 3)]]   # 3 coordinate lists for 2 pipes
    try:
        fn(net, *args, geodata=geodata)
        bad.append("%s accepted 3 coordinate lists for 2 pipes" % label)
    except Exception as e:
        d = diff(before, snap(net))
        if d:
            bad.append("%s raised %s (%s) but changed the net: %s" % (label, type(e).__name__, str(e)[:60], d))
if bad:
    print("VIOLATION (rejected call changed the net):\n  " + "\n  ".join(bad)); sys.exit(1)
print("ok")
