"""C16: create_pipes with a LIST of std types and an override of u_w_per_m2k / k_mm (keyword, as accepted by
create_pipe) applies the override to the first pipe only - the keyword is popped in the first loop pass.
create_pipes with a single std type name, and create_pipe one by one, apply it to every pipe."""
import sys, logging, warnings
import numpy as np
import pandapipes as pp
logging.disable(logging.CRITICAL); warnings.simplefilter("ignore")

def mk():
    net = pp.create_empty_network(fluid="water")
    pp.create_junctions(net, 3, 5.0, 300.0)
    return net

cols = ["u_w_per_m2k", "k_mm"]
a = mk()
for f, t in [(0, 1), (1, 2)]:
    pp.create_pipe(a, f, t, "80_GGG", 0.1, u_w_per_m2k=5.0, k_mm=0.5)
b = mk()
pp.create_pipes(b, [0, 1], [1, 2], ["80_GGG", "80_GGG"], 0.1, u_w_per_m2k=5.0, k_mm=0.5)
c = mk()
pp.create_pipes(c, [0, 1], [1, 2], "80_GGG", 0.1, u_w_per_m2k=5.0, k_mm=0.5)
va, vb, vc = (x.pipe[cols].values for x in (a, b, c))
if not (np.array_equal(va, vb, equal_nan=True) and np.array_equal(va, vc, equal_nan=True)):
    print("VIOLATION (bulk != one by one): columns %s\n  one by one:                 %s\n  create_pipes, std_type list: %s\n"
          "  create_pipes, std_type str:  %s" % (cols, va.tolist(), vb.tolist(), vc.tolist()))
    sys.exit(1)
print("ok")
