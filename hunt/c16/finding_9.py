"""C16: per-element arguments given as a pandas Series are paired with the elements BY LABEL if the Series' labels
happen to be a subset of the new element indices, and BY POSITION otherwise. The same call therefore creates
different elements depending on how many rows the table already holds; one-by-one creation pairs by position."""
import sys, logging, warnings
import pandas as pd
import pandapipes as pp
logging.disable(logging.CRITICAL); warnings.simplefilter("ignore")

mdot = pd.Series([0.1, 0.2, 0.3], index=[2, 1, 0])       # e.g. a column of a frame that was sorted descending
res = {}
for n_existing in (0, 1):
    net = pp.create_empty_network(fluid="water")
    pp.create_junctions(net, 4, 5.0, 300.0)
    for _ in range(n_existing):
        pp.create_sink(net, 3, 9.9)
    idx = pp.create_sinks(net, [0, 1, 2], mdot)
    res[n_existing] = dict(zip(net.sink.loc[idx, "junction"].tolist(), net.sink.loc[idx, "mdot_kg_per_s"].tolist()))
single = pp.create_empty_network(fluid="water")
pp.create_junctions(single, 4, 5.0, 300.0)
for j, m in zip([0, 1, 2], mdot):
    pp.create_sink(single, j, m)
ref = dict(zip(single.sink.junction.tolist(), single.sink.mdot_kg_per_s.tolist()))
if res[0] != ref or res[1] != ref:
    print("VIOLATION (bulk != one by one, and depends on the rows already in the table): junction -> mdot_kg_per_s\n"
          "  one by one:                         %s\n  create_sinks on an empty sink table: %s\n  create_sinks, one sink existing:     %s"
          % (ref, res[0], res[1]))
    sys.exit(1)
print("ok")
