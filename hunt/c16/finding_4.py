"""C16: sections=None (create_pipe, create_pipe_from_parameters, create_pipes...) is accepted and silently turns the
integer column net.pipe.sections into float64 for the whole table (dtype not preserved, NaN stored); the
pipeflow on that net then dies with a MemoryError / cast error instead of the call being refused."""
import sys, logging, warnings
import pandapipes as pp
logging.disable(logging.CRITICAL); warnings.simplefilter("ignore")

bad = []
for label, f in [
        ("create_pipe_from_parameters(sections=None)", lambda n: pp.create_pipe_from_parameters(n, 1, 2, 0.1, 80.0, sections=None)),
        ("create_pipe(sections=None)", lambda n: pp.create_pipe(n, 1, 2, "80_GGG", 0.1, sections=None)),
        ("create_pipes_from_parameters(sections=[2, None])", lambda n: pp.create_pipes_from_parameters(n, [1, 1], [2, 2], 0.1, 80.0, sections=[2, None]))]:
    net = pp.create_empty_network(fluid="water")
    pp.create_junctions(net, 3, 3.0, 300.0)
    pp.create_ext_grid(net, 0, 3.0, 300.0)
    pp.create_pipe_from_parameters(net, 0, 1, 0.1, 80.0)
    pp.create_sink(net, 2, 1.0)
    dt0 = net.pipe.sections.dtype
    try:
        f(net)
    except Exception as e:
        continue   # refusing is fine
    dt1 = net.pipe.sections.dtype
    if dt1 != dt0:
        msg = "%s accepted: net.pipe.sections dtype %s -> %s, values %s" % (label, dt0, dt1, net.pipe.sections.tolist())
        try:
            pp.pipeflow(net, use_numba=False); msg += "; pipeflow ran"
        except BaseException as e:
            msg += "; pipeflow raised %s: %s" % (type(e).__name__, str(e)[:70])
        bad.append(msg)
if bad:
    print("VIOLATION (column dtype not preserved, missing required value accepted):\n  " + "\n  ".join(bad)); sys.exit(1)
print("ok")
