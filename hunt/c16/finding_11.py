"""C16: single create functions write the row cell by cell and convert dtypes afterwards. A value that cannot be
stored (a list where a scalar is required, a non-numeric string) makes the call raise AFTER the row - or a part of
it - has been written, and leaves numeric columns with dtype object."""
import sys, logging, warnings
import pandas as pd
import pandapipes as pp
logging.disable(logging.CRITICAL); warnings.simplefilter("ignore")


def snap(net):
    s = {k: v.copy(deep=True) for k, v in net.items() if isinstance(v, pd.DataFrame)}
    s["__components"] = [c.__name__ for c in net.component_list]
    s["__std_types"] = {c: sorted(t) for c, t in net.std_types.items()} if "std_types" in net else None
    return s

def diff(a, b):
    out = []
    for k in sorted(set(a) | set(b)):
        if k.startswith("__"):
            if a.get(k) != b.get(k):
                out.append("%s: %s -> %s" % (k, a.get(k), b.get(k)))
        elif k not in a or k not in b:
            out.append("table %s appeared/disappeared" % k)
        else:
            x, y = a[k], b[k]
            if len(x) != len(y):
                out.append("table %s: %d -> %d rows (index %s -> %s)" % (k, len(x), len(y), list(x.index), list(y.index)))
            elif dict(x.dtypes) != dict(y.dtypes):
                ch = {c: (str(x[c].dtype), str(y[c].dtype)) for c in x.columns if c in y and x[c].dtype != y[c].dtype}
                out.append("table %s: dtypes changed %s" % (k, ch))
            elif not x.equals(y):
                out.append("table %s: values changed" % k)
    return out

def mk():
    net = pp.create_empty_network(fluid="water")
    pp.create_junctions(net, 3, 5.0, 300.0)
    pp.create_sink(net, 2, 0.1)
    pp.create_pipe_from_parameters(net, 0, 1, 0.1, 50.0)
    return net

calls = [
    ("create_sink(mdot_kg_per_s=[0.1, 0.2])  (array given to the single function)", lambda n: pp.create_sink(n, 0, [0.1, 0.2])),
    ("create_sink(mdot_kg_per_s='a')", lambda n: pp.create_sink(n, 0, "a")),
    ("create_junction(pn_bar=[5.0, 6.0])", lambda n: pp.create_junction(n, [5.0, 6.0], 300.0)),
    ("create_pipe_from_parameters(length_km='long')", lambda n: pp.create_pipe_from_parameters(n, 1, 2, "long", 50.0)),
]
bad = []
for label, f in calls:
    net = mk(); before = snap(net)
    try:
        f(net)
    except Exception as e:
        d = diff(before, snap(net))
        if d:
            bad.append("%s raised %s but changed the net: %s" % (label, type(e).__name__, d))
if bad:
    print("VIOLATION (rejected call changed the net):\n  " + "\n  ".join(bad)); sys.exit(1)
print("ok")
