"""C10 finding 1: an external grid that ABSORBS fluid still pins its t_k on its junction; if the net has
an inflow point without temperature (mass source, or a type-"p" ext grid) the number of pinned nodes equals
the number of infeed nodes, the thermal system is solved "backwards" and the calculation converges with
temperatures far outside the range spanned by feed and ambient temperatures (even negative Kelvin).

Net: J0 (ext grid 5 bar, 370 K) -> J1 -> J2 (ext grid 4.9 bar, 300 K, absorbs 2.5 kg/s); source 0.2 kg/s at J3 -> J1.
No heat sources/sinks, all pipes text_k = 280 K.
Property: every temperature lies in [min, max] of feed (370, 300) and ambient (280 pipes, 293.15 option) temperatures,
and a temperature-fixing feeder imposes its temperature only on the fluid it feeds.
"""
import sys
import itertools
import numpy as np
import pandapipes as pp

bad = []
for mode, use_numba in itertools.product(["sequential", "bidirectional"], [False, True]):
    net = pp.create_empty_network(fluid="water")
    for _ in range(4):
        pp.create_junction(net, pn_bar=5, tfluid_k=320)
    for a, b in [(0, 1), (1, 2), (3, 1)]:
        pp.create_pipe_from_parameters(net, a, b, length_km=.5, inner_diameter_mm=100., k_mm=.1, sections=2,
                                       u_w_per_m2k=10, text_k=280)
    pp.create_ext_grid(net, 0, p_bar=5, t_k=370, type="pt")
    pp.create_ext_grid(net, 2, p_bar=4.9, t_k=300, type="pt")
    pp.create_source(net, 3, mdot_kg_per_s=0.2)
    try:
        pp.pipeflow(net, mode=mode, use_numba=use_numba, iter=200,
                    tol_p=1e-10, tol_m=1e-10, tol_T=1e-9, tol_res=1e-8)
    except Exception as e:  # a refusal to solve would be acceptable
        print(mode, use_numba, "not solved:", type(e).__name__)
        continue
    assert net.converged
    # ext grid 1 takes fluid out of the net (positive mdot = consumption) -> it feeds nothing
    assert net.res_ext_grid.mdot_kg_per_s.at[1] > 0 > net.res_ext_grid.mdot_kg_per_s.at[0]
    lo, hi = 280. - 1e-6, 370. + 1e-6
    temps = {"junction %d" % j: t for j, t in net.res_junction.t_k.items()}
    temps.update({"pipe %d outlet" % p: t for p, t in net.res_pipe.t_outlet_k.items()})
    out = {k: round(v, 3) for k, v in temps.items() if not (lo <= v <= hi)}
    print(mode, "numba" if use_numba else "numpy", "converged; t_k =", net.res_junction.t_k.round(3).tolist(),
          "t_outlet_k =", net.res_pipe.t_outlet_k.round(3).tolist())
    if out:
        bad.append((mode, use_numba, out))

if bad:
    print("\nVIOLATION: converged thermal solution with temperatures outside [280 K, 370 K] "
          "(coldest/warmest of feed and ambient) although the net has no heat source or sink:")
    for b in bad:
        print("  ", b)
    sys.exit(1)
print("property holds")
