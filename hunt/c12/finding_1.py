"""C12 - repeating a calculation gives bit-identical results / results do not depend on earlier calls.

Input: small water net (ext grid, pump-free, one pressure controller whose controlled junction is its
to-junction, two sinks).  The same call
    pipeflow(net, mode="hydraulics", only_update_hydraulic_matrix=True, reuse_internal_data=True)
is issued twice on the same, unedited net object.

Expected: both calls report the same res_junction.p_bar (bit-identical).
Observed: both calls end with net.converged == True, but the pressures differ by several bar; the
second call starts from net._internal_data (matrix + data ordering) that the first call left behind,
and that matrix was altered in place by the linear solver (duplicate entries summed: 37 stored
entries vs. an ordering vector of 38).
"""
import sys
import numpy as np
import pandapipes as pp


def build():
    net = pp.create_empty_network("w", fluid="water")
    j = list(pp.create_junctions(net, 6, pn_bar=3.0, tfluid_k=300., height_m=[0, 5, 10, 0, 3, 0]))
    pp.create_ext_grid(net, j[0], p_bar=4, t_k=340., type="pt")
    pp.create_pipe(net, j[0], j[1], "125_PE_80_SDR_11", 0.5)
    pp.create_pipe(net, j[1], j[2], "125_PE_80_SDR_11", 0.3)
    pp.create_pipe(net, j[2], j[3], "125_PE_80_SDR_11", 0.5)
    pp.create_pressure_control(net, j[3], j[4], j[4], 3.0)
    pp.create_pipe(net, j[4], j[5], "125_PE_80_SDR_11", 0.5)
    pp.create_pipe(net, j[1], j[5], "125_PE_80_SDR_11", 0.8)
    pp.create_sink(net, j[5], 3.0)
    pp.create_sink(net, j[3], 1.0)
    return net


kw = dict(mode="hydraulics", only_update_hydraulic_matrix=True, reuse_internal_data=True,
          max_iter_hyd=50)

net = build()
pp.pipeflow(net, **kw)
conv1, p1 = bool(net.converged), net.res_junction.p_bar.values.copy()
pp.pipeflow(net, **kw)          # identical call, nothing edited in between
conv2, p2 = bool(net.converged), net.res_junction.p_bar.values.copy()

fresh = build()
pp.pipeflow(fresh, **kw)        # the same call on a freshly built net
p_fresh = fresh.res_junction.p_bar.values.copy()

print("call 1 converged", conv1, p1)
print("call 2 converged", conv2, p2)
print("fresh  net      ", p_fresh)
if not (conv1 and conv2):
    print("calculation did not converge - nothing to compare"); sys.exit(0)
if not np.array_equal(p1, p_fresh):
    print("VIOLATION: two freshly built nets disagree"); sys.exit(1)
if not np.array_equal(p1, p2):
    print("VIOLATION (C12): repeated identical pipeflow call on the same net gives different "
          "pressures, max |diff| = %.3f bar" % np.max(np.abs(p1 - p2)))
    sys.exit(1)
print("ok")
