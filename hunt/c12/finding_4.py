"""C12 - results do not depend on what was calculated on the same net object before (other options).

Input: water net ext grid -> 2 pipes (8 sections) -> 2 sinks.
  history: pipeflow(mode="sequential", transient=True, simulation_time_step=0, dt=60), nothing is
           edited, then pipeflow(mode="hydraulics").
  fresh  : pipeflow(mode="hydraulics") only.

Expected: the set of result tables and their content after the last call is the same.
Observed: the transient call creates net.res_internal (node temperatures); no later call removes or
re-initialises it, so after the plain hydraulic run the net still carries res_internal with the
temperatures of the earlier thermal calculation, while the fresh net has no such table.
"""
import sys
import numpy as np
import pandapipes as pp


def build():
    net = pp.create_empty_network("net", fluid="water")
    pp.create_junctions(net, 3, pn_bar=5, tfluid_k=283)
    pp.create_pipe_from_parameters(net, 0, 1, 6, inner_diameter_mm=75, k_mm=.1, sections=6, u_w_per_m2k=5)
    pp.create_pipe_from_parameters(net, 1, 2, 2, inner_diameter_mm=75, k_mm=.1, sections=2, u_w_per_m2k=5)
    pp.create_ext_grid(net, 0, p_bar=5, t_k=330, type="pt")
    pp.create_sink(net, 1, mdot_kg_per_s=1)
    pp.create_sink(net, 2, mdot_kg_per_s=0.5)
    return net


hist = build()
pp.pipeflow(hist, mode="sequential", transient=True, simulation_time_step=0, dt=60)
pp.pipeflow(hist, mode="hydraulics")
fresh = build()
pp.pipeflow(fresh, mode="hydraulics")

th = sorted(k for k in hist.keys() if k.startswith("res_"))
tf = sorted(k for k in fresh.keys() if k.startswith("res_"))
extra = sorted(set(th) ^ set(tf))
print("result tables only on one side:", extra)
if extra:
    print(hist.res_internal.T)
    print("junction t_k of the last (hydraulic) run:", hist.res_junction.t_k.values)
    print("VIOLATION (C12): result table(s) %s left over from an earlier call with other options "
          "survive a later pipeflow call" % extra)
    sys.exit(1)
print("ok")
