"""C12 - failed runs leave no state behind: the state after a call does not depend on earlier calls.

Input: water net ext grid -> 2 pipes -> 2 sinks.
  history: pipeflow(mode="hydraulics")  (converges), then pipeflow(mode="hydraulics", transient=True)
           which fails with UserWarning (option simulation_time_step missing).
  fresh  : only the failing call.

Expected: after the failing call both nets are in the same state (net.converged False, results NaN).
Observed: the failing call wipes the result tables (all NaN) but raises inside initialize_pit, before
pipeflow resets net.converged; with the history net.converged is still True from the earlier run
(True with all-NaN results), on the fresh net it is False.
"""
import sys
import pandapipes as pp


def build():
    net = pp.create_empty_network("net", fluid="water")
    pp.create_junctions(net, 3, pn_bar=5, tfluid_k=283)
    pp.create_pipe_from_parameters(net, 0, 1, 6, inner_diameter_mm=75, k_mm=.1, sections=6)
    pp.create_pipe_from_parameters(net, 1, 2, 2, inner_diameter_mm=75, k_mm=.1, sections=2)
    pp.create_ext_grid(net, 0, p_bar=5, t_k=330, type="pt")
    pp.create_sink(net, 1, mdot_kg_per_s=1)
    pp.create_sink(net, 2, mdot_kg_per_s=0.5)
    return net


def failing_call(net):
    try:
        pp.pipeflow(net, mode="hydraulics", transient=True)
        return "no error"
    except Exception as e:
        return type(e).__name__


hist = build()
pp.pipeflow(hist, mode="hydraulics")
r_h = failing_call(hist)
fresh = build()
r_f = failing_call(fresh)
print("history: call ->", r_h, "| converged =", hist.converged, "| all p_bar NaN =",
      bool(hist.res_junction.p_bar.isna().all()))
print("fresh  : call ->", r_f, "| converged =", fresh.converged, "| all p_bar NaN =",
      bool(fresh.res_junction.p_bar.isna().all()))
if r_h == r_f and bool(hist.converged) != bool(fresh.converged):
    print("VIOLATION (C12): net.converged after a failed call depends on the run before it "
          "(True although the result tables are empty)")
    sys.exit(1)
print("ok")
