"""C12 - a thermal-only run started from a stored hydraulic solution equals the sequential run.

Input: water net ext grid(pt) -> 2 pipes -> 2 sinks (1.0 and 0.5 kg/s).
  net A: pipeflow(mode="sequential")
  net B: pipeflow(mode="hydraulics"); sol_vec = (p, mdot) from net._pit; pipeflow(mode="heat", sol_vec)

Expected: every number reported by B equals A's (quantities a heat-only run does not know may be
NaN, as res_pipe.mdot_from_kg_per_s etc. are).
Observed: temperatures agree bit for bit, but B reports res_ext_grid.mdot_kg_per_s = 0.0 (a number,
not NaN) while the sequential run - and B's own hydraulic run one call earlier - report -1.5 kg/s:
the slack mass flow is not part of sol_vec and the freshly rebuilt internal table holds 0.
"""
import sys
import numpy as np
import pandapipes as pp
from pandapipes.idx_node import PINIT
from pandapipes.idx_branch import MDOTINIT


def build():
    net = pp.create_empty_network("net", fluid="water")
    pp.create_junctions(net, 3, pn_bar=5, tfluid_k=283)
    pp.create_pipe_from_parameters(net, 0, 1, 6, inner_diameter_mm=75, k_mm=.1, sections=6, u_w_per_m2k=5)
    pp.create_pipe_from_parameters(net, 1, 2, 2, inner_diameter_mm=75, k_mm=.1, sections=2, u_w_per_m2k=5)
    pp.create_ext_grid(net, 0, p_bar=5, t_k=330, type="pt")
    pp.create_sink(net, 1, mdot_kg_per_s=1)
    pp.create_sink(net, 2, mdot_kg_per_s=0.5)
    return net


a = build()
pp.pipeflow(a, mode="sequential")
b = build()
pp.pipeflow(b, mode="hydraulics")
eg_hyd = b.res_ext_grid.mdot_kg_per_s.values.copy()
u = np.concatenate((b._pit["node"][:, PINIT], b._pit["branch"][:, MDOTINIT]))
pp.pipeflow(b, mode="heat", sol_vec=u)

bad = []
for tbl in sorted(k for k in a.keys() if k.startswith("res_")):
    ta, tb = a[tbl], b[tbl]
    for col in ta.columns:
        va, vb = ta[col].values.astype(float), tb[col].values.astype(float)
        wrong = ~np.isnan(vb) & ~(va == vb)          # NaN in the heat-only run is tolerated
        if wrong.any():
            bad.append("%s.%s: sequential %s, heat-only %s" % (tbl, col, va[wrong], vb[wrong]))
print("junction temperatures identical:", np.array_equal(a.res_junction.t_k.values, b.res_junction.t_k.values))
print("ext grid mass flow: sequential", a.res_ext_grid.mdot_kg_per_s.values, "hydraulics", eg_hyd,
      "heat-only", b.res_ext_grid.mdot_kg_per_s.values)
if bad:
    print("VIOLATION (C12): heat-only run from the stored hydraulic solution reports numbers that "
          "differ from the sequential run:\n  " + "\n  ".join(bad))
    sys.exit(1)
print("ok")
