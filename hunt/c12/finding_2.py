"""C12 - results do not depend on what was calculated before (failed runs); hyd_flag marks the
availability of a hydraulic solution for mode='heat'.

Input: water net ext grid -> 2 pipes -> 2 sinks.  Both histories END with the same two calls:
    (1) pipeflow(net, mode="hydraulics", max_iter_hyd=1)   -> PipeflowNotConverged
    (2) pipeflow(net, mode="heat", sol_vec=<p, mdot read from net._pit>)
History B merely has one successful hydraulic run on the same net object before them.

Expected: after the failed run (1) no hydraulic solution is available, so (2) must be refused in
both histories (as it is on the fresh net A).
Observed: in history B user_pf_options['hyd_flag'] is still True from the run before the failed
one; (2) is accepted, net.converged becomes True and temperatures computed from the unconverged
start values (p = 5 bar everywhere) are reported - 11 K off the sequential result.
"""
import sys
import numpy as np
import pandapipes as pp
from pandapipes.idx_node import PINIT
from pandapipes.idx_branch import MDOTINIT
from pandapipes.pf.pipeflow_setup import PipeflowNotConverged


def build():
    net = pp.create_empty_network("net", fluid="water")
    pp.create_junctions(net, 3, pn_bar=5, tfluid_k=283)
    pp.create_pipe_from_parameters(net, 0, 1, 6, inner_diameter_mm=75, k_mm=.1, sections=6, u_w_per_m2k=5)
    pp.create_pipe_from_parameters(net, 1, 2, 2, inner_diameter_mm=75, k_mm=.1, sections=2, u_w_per_m2k=5)
    pp.create_ext_grid(net, 0, p_bar=5, t_k=330, type="pt")
    pp.create_sink(net, 1, mdot_kg_per_s=1)
    pp.create_sink(net, 2, mdot_kg_per_s=0.5)
    return net


def last_two_calls(net):
    try:
        pp.pipeflow(net, mode="hydraulics", max_iter_hyd=1)
        return "hydraulic run unexpectedly converged", None
    except PipeflowNotConverged:
        pass
    u = np.concatenate((net._pit["node"][:, PINIT], net._pit["branch"][:, MDOTINIT]))
    try:
        pp.pipeflow(net, mode="heat", sol_vec=u)
        return "accepted", net.res_junction.t_k.values.copy()
    except Exception as e:
        return "refused (%s)" % type(e).__name__, None


a = build()                                   # history A: fresh net
out_a, t_a = last_two_calls(a)
b = build()                                   # history B: one successful run before
pp.pipeflow(b, mode="hydraulics")
out_b, t_b = last_two_calls(b)
ref = build(); pp.pipeflow(ref, mode="sequential")

print("history A (fresh):            heat run", out_a)
print("history B (success, then fail): heat run", out_b, "hyd_flag =", b.user_pf_options.get("hyd_flag"),
      "converged =", b.converged)
if t_b is not None:
    print("   t_k reported:", t_b, " sequential reference:", ref.res_junction.t_k.values)
if out_a != out_b:
    print("VIOLATION (C12): the outcome of the same two calls depends on an earlier run; hyd_flag is "
          "not cleared by the failed hydraulic calculation")
    sys.exit(1)
print("ok")
