"""C06 (side API, not a res_* table): Pipe.get_internal_results(net, pipe_labels) uses the labels as table POSITIONS.

`internal_nodes[pipe]` / `internal_sections[pipe]` in pipe_component.get_internal_results index the per-row section
counts with the pipe labels. Same net, pipes labelled (0, 1) / swapped row labels (1, 0) / gapped (3, 7):
the section results of corresponding pipes must agree.
"""
import sys, warnings
import numpy as np
import pandapipes as pp
from pandapipes.component_models import Pipe
warnings.filterwarnings("ignore")

def build(labels):
    net = pp.create_empty_network(fluid="lgas")
    j = [pp.create_junction(net, 1.0, 293.15) for _ in range(3)]
    pp.create_ext_grid(net, j[0], 1.0, 293.15)
    pp.create_pipe_from_parameters(net, j[0], j[1], 0.5, 100, sections=2, index=labels[0], name="a")
    pp.create_pipe_from_parameters(net, j[1], j[2], 0.5, 60, sections=4, index=labels[1], name="b")
    pp.create_sink(net, j[2], 0.02)
    pp.create_sink(net, j[1], 0.02)
    pp.pipeflow(net, tol_p=1e-10, tol_m=1e-10, tol_res=1e-8)
    return net

def internal(labels):
    net = build(labels)
    out = {}
    for name, lab in zip("ab", labels):
        try:
            r = Pipe.get_internal_results(net, np.array([lab]))
            out[name] = (r["PINIT"][:, 1], r["VINIT_MEAN"][:, 1])
        except Exception as e:
            out[name] = "%s: %s" % (type(e).__name__, e)
    return out

ref = internal((0, 1))
bad = []
for labels in [(1, 0), (3, 7)]:
    got = internal(labels)
    for name in "ab":
        same = (not isinstance(got[name], str) and all(len(x) == len(y) and np.allclose(x, y, rtol=1e-8)
                                                      for x, y in zip(ref[name], got[name])))
        print(labels, name, "ref:", ref[name], "got:", got[name])
        if not same:
            bad.append((labels, name))
if bad:
    print("VIOLATION C06: internal section results depend on the pipe labels:", bad)
    sys.exit(1)
print("ok")
