"""C06: res_pipe.lambda of a multi-section pipe depends on the pipe labels (cumsum cancellation in _sum_by_group_np).

Same physical net, three multi-section pipes feed/stagnant/load; the stagnant pipe carries 1e-12 kg/s (laminar lambda ~5e9).
The section averages are formed by cumsum + difference over the sections SORTED BY PIPE INDEX, so every pipe whose label
sorts after the stagnant pipe loses ~7 digits of its lambda; pipes sorting before it are exact. With use_numba=True the
dense numba path is exact, but a merely gapped labelling (max index >= 10 * number of sections) switches to the numpy path.
"""
import sys, warnings
import numpy as np
import pandapipes as pp
warnings.filterwarnings("ignore")

def run(labels, use_numba, n_stag=40):
    net = pp.create_empty_network(fluid="water")
    j = [pp.create_junction(net, 5.0, 293.15) for _ in range(4)]
    pp.create_ext_grid(net, j[0], 5.0, 293.15)
    pp.create_pipe_from_parameters(net, j[0], j[1], 0.5, 100, sections=2, index=labels[0], name="feed")
    pp.create_pipe_from_parameters(net, j[1], j[2], 0.5, 100, sections=n_stag, index=labels[1], name="stagnant")
    pp.create_pipe_from_parameters(net, j[1], j[3], 0.5, 100, sections=2, index=labels[2], name="load")
    pp.create_sink(net, j[3], 1.0)
    pp.create_sink(net, j[2], 1e-12)
    pp.pipeflow(net, tol_p=1e-10, tol_m=1e-10, tol_res=1e-8, use_numba=use_numba)
    res = net.res_pipe.copy()
    res.index = net.pipe.name.values
    return res

bad = []
for use_numba, la, lb in [(False, (0, 1, 2), (1, 0, 2)),      # only the order of the labels differs
                          (True, (0, 1, 2), (1000, 500, 2000))]:  # default options, gapped labels
    ra, rb = run(la, use_numba), run(lb, use_numba)
    # the hydraulic solution itself is identical
    assert np.allclose(ra.mdot_from_kg_per_s, rb.mdot_from_kg_per_s, rtol=1e-9, atol=0)
    assert np.allclose(ra.reynolds[["feed", "load"]], rb.reynolds[["feed", "load"]], rtol=1e-9)
    for p in ["feed", "load"]:
        rel = abs(ra.at[p, "lambda"] - rb.at[p, "lambda"]) / ra.at[p, "lambda"]
        print("use_numba=%s labels %s vs %s: lambda[%s] = %.12g vs %.12g (rel. diff %.2e)"
              % (use_numba, la, lb, p, ra.at[p, "lambda"], rb.at[p, "lambda"], rel))
        if rel > 1e-7:
            bad.append((use_numba, la, lb, p, rel))
if bad:
    print("VIOLATION C06: lambda of identical pipes with identical Reynolds number differs between labellings:", bad)
    sys.exit(1)
print("ok")
