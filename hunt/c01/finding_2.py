"""C01 (borderline domain: in_service stored as 0/1 integers instead of bool) - sink results are
written to the wrong rows, so reported flows do not balance.

Input : ext_grid - pipe - junction 1 - pipe - junction 2; sinks: #0 (0.3 kg/s at junction 1, OUT of
        service), #1 (0.2 at junction 2), #2 (0.1 at junction 2); net.sink["in_service"] = [0, 1, 1]
        (int64 column, e.g. after `net.sink.in_service = 0` / `.loc[i, "in_service"] = 0`).
Demand: flows of sinks, branches and ext_grid sum to zero at every supplied junction and globally.
Actual: the solver honours the 0/1 pattern (ext_grid feeds 0.3 kg/s), but ConstFlow.extract_results uses
        `is_loads & is_juncts` as an index: with an int column this is an integer (fancy) index
        [0, 1, 1], so res_sink = [0.3, 0.2, NaN] - the switched-off sink reports 0.3 kg/s, the active
        sink #2 reports nothing; junction 1 is off by 0.3, junction 2 by 0.1, the whole net by 0.2 kg/s.
"""
import sys
import numpy as np
import pandapipes as pp

net = pp.create_empty_network(fluid="water")
pp.create_junctions(net, 3, 5, 300)
pp.create_ext_grid(net, 0, 5, 300)
pp.create_pipe_from_parameters(net, 0, 1, 0.1, 50.)
pp.create_pipe_from_parameters(net, 1, 2, 0.1, 50.)
pp.create_sink(net, 1, 0.3)
pp.create_sink(net, 2, 0.2)
pp.create_sink(net, 2, 0.1)
net.sink["in_service"] = [0, 1, 1]

pp.pipeflow(net, tol_p=1e-10, tol_m=1e-10, tol_res=1e-8, max_iter_hyd=100)
assert net.converged

bal = np.zeros(3)
for i in net.pipe.index:
    bal[net.pipe.at[i, "from_junction"]] -= net.res_pipe.at[i, "mdot_from_kg_per_s"]
    bal[net.pipe.at[i, "to_junction"]] -= net.res_pipe.at[i, "mdot_to_kg_per_s"]
for i in net.sink.index:
    bal[net.sink.at[i, "junction"]] -= np.nan_to_num(net.res_sink.at[i, "mdot_kg_per_s"])
bal[0] -= net.res_ext_grid.mdot_kg_per_s.sum()   # negative result = feed-in
feed = -net.res_ext_grid.mdot_kg_per_s.sum()
consumption = np.nansum(net.res_sink.mdot_kg_per_s.values)

print("res_sink:", net.res_sink.mdot_kg_per_s.values, "| ext_grid feed-in:", feed)
print("junction imbalance:", bal, "| feed-in - consumption:", feed - consumption)
if np.abs(bal).max() > 1e-9 or abs(feed - consumption) > 1e-9:
    print("VIOLATION: reported mass flows do not balance (sink results written to wrong rows)")
    sys.exit(1)
print("no violation")
