"""C01 - constant damping (alpha < 1): the returned mass flows do not balance at the junctions.

Input : 4 junctions, 1 ext_grid, 4 pipes (one mesh), 2 sinks, water; pipeflow(net, alpha=0.2)
        (nonlinear_method stays "constant"), once with default and once with tight tolerances.
Demand: the junction imbalance of a returned calculation is linear-solve round-off (~1e-16),
        orders of magnitude below tol_m, for every damping setting.
Actual: solve_hydraulics applies `alpha` to the branch flows and pressures only (the slack mass flow
        gets the full step), so the linear nodal rows are never solved exactly; the iteration stops
        as soon as the damped update alpha*|dm| <= tol_m. The imbalance that is returned is ~3x tol_m
        (3e-5 kg/s with default tolerances), 11 orders of magnitude above the alpha=1 result.
"""
import sys
import numpy as np
import pandapipes as pp


def build():
    net = pp.create_empty_network(fluid="water")
    pp.create_junctions(net, 4, 5, 300)
    pp.create_ext_grid(net, 0, 5, 300)
    pp.create_pipe_from_parameters(net, 0, 1, 0.1, 50.)
    pp.create_pipe_from_parameters(net, 1, 2, 0.1, 50.)
    pp.create_pipe_from_parameters(net, 2, 3, 0.1, 50.)
    pp.create_pipe_from_parameters(net, 1, 3, 0.3, 50.)
    pp.create_sink(net, 3, 0.3)
    pp.create_sink(net, 2, 0.2)
    return net


def junction_imbalance(net):
    bal = np.zeros(len(net.junction))
    for i in net.pipe.index:
        bal[net.pipe.at[i, "from_junction"]] -= net.res_pipe.at[i, "mdot_from_kg_per_s"]
        bal[net.pipe.at[i, "to_junction"]] -= net.res_pipe.at[i, "mdot_to_kg_per_s"]
    for i in net.sink.index:
        bal[net.sink.at[i, "junction"]] -= net.res_sink.at[i, "mdot_kg_per_s"]
    for i in net.ext_grid.index:  # negative result = feed-in
        bal[net.ext_grid.at[i, "junction"]] -= net.res_ext_grid.at[i, "mdot_kg_per_s"]
    return bal


failed = False
for tols in (dict(tol_m=1e-5, tol_p=1e-5, tol_res=1e-3),      # defaults
             dict(tol_m=1e-10, tol_p=1e-10, tol_res=1e-8)):
    ref = build()
    pp.pipeflow(ref, alpha=1, max_iter_hyd=1000, **tols)
    imb_ref = np.abs(junction_imbalance(ref)).max()
    net = build()
    pp.pipeflow(net, alpha=0.2, max_iter_hyd=1000, **tols)   # returns, net.converged is True
    assert net.converged
    imb = junction_imbalance(net)
    print("tol_m=%g: alpha=1 imbalance %.2e | alpha=0.2 imbalance per junction %s"
          % (tols["tol_m"], imb_ref, np.array2string(imb, precision=3)))
    if np.abs(imb).max() > tols["tol_m"]:
        failed = True
        print("  VIOLATION: junction imbalance %.3e kg/s exceeds even the mass flow tolerance %g "
              "(round-off level would be ~1e-16)" % (np.abs(imb).max(), tols["tol_m"]))
if failed:
    sys.exit(1)
print("no violation")
