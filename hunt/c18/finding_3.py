"""C18 finding 3: respect_status_branches_all does not reach the junction-pipe valves.

Net: junction 0 --pipe 0 (closed valve et="pi" at junction 0)-- junction 1 --closed valve et="ju"--
junction 2.  respect_status_branches_all is documented as the override of the status consideration
"for all branch elements (pipes, valves, pumps etc.)".  For the junction-junction valve it works,
but whether the closed pipe valve removes its pipe's edge is decided by respect_status_valves alone:
 * respect_status_branches_all=False  -> closed ju-valve is an edge, but pipe 0 is still removed
 * respect_status_branches_all=True, respect_status_valves=False
                                      -> closed ju-valve is no edge, but pipe 0 is still present
"""
import sys
import warnings

import pandapipes as pp
import pandapipes.topology as top

warnings.filterwarnings("ignore")

net = pp.create_empty_network(fluid="water")
j0, j1, j2 = (pp.create_junction(net, pn_bar=1., tfluid_k=300.) for _ in range(3))
pp.create_ext_grid(net, j0, p_bar=1., t_k=300.)
pipe = pp.create_pipe_from_parameters(net, j0, j1, length_km=0.1, inner_diameter_mm=100.)
pp.create_valve(net, j0, pipe, et="pi", inner_diameter_mm=100., opened=False)
pp.create_valve(net, j1, j2, et="ju", inner_diameter_mm=100., opened=False)

bad = []
for kwargs, status_respected in [
    (dict(), True),
    (dict(respect_status_valves=False), False),
    (dict(respect_status_branches_all=False), False),
    (dict(respect_status_branches_all=True, respect_status_valves=False), True),
    (dict(respect_status_branches_all=False, respect_status_valves=True), False),
]:
    for multi in (True, False):
        mg = top.create_nxgraph(net, multi=multi, **kwargs)
        pipe_edge = mg.has_edge(j0, j1)
        valve_edge = mg.has_edge(j1, j2)
        # a closed valve blocks (ju: no own edge, pi: pipe edge removed) iff the status is respected
        ok = (pipe_edge == (not status_respected)) and (valve_edge == (not status_respected))
        print("%-75s multi=%-5s pipe edge: %-5s ju-valve edge: %-5s %s"
              % (kwargs, multi, pipe_edge, valve_edge, "" if ok else "<-- inconsistent"))
        if not ok:
            bad.append((kwargs, multi))

if bad:
    print("VIOLATION: with respect_status_branches_all the closed pipe valve and the closed "
          "junction valve are treated differently in %d option combinations." % len(bad))
    sys.exit(1)
print("ok")
