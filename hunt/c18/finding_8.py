"""C18 finding 8: include_* is documented as "bool, iterable", but a numpy bool, a tuple or a set fail.

Net: ext_grid at junction 0, pipes 10, 11, 12 in a chain 0-1-2-3.
 * include_pipes=np.True_ / np.False_ (what e.g. `net.pipe.in_service.any()` returns) is not
   recognised as a flag -> TypeError "object of type 'numpy.bool' has no len()"
 * include_pipes=(10, 12) is used as a (row, column) key of .loc -> KeyError 12
 * include_pipes={10, 12} -> TypeError (set as indexer)
A list / array / Index with the same content gives exactly the edges of pipes 10 and 12.
"""
import sys
import warnings

import numpy as np
import pandas as pd
import pandapipes as pp
import pandapipes.topology as top

warnings.filterwarnings("ignore")

net = pp.create_empty_network(fluid="water")
j = [pp.create_junction(net, pn_bar=1., tfluid_k=300.) for _ in range(4)]
pp.create_ext_grid(net, j[0], p_bar=1., t_k=300.)
for a, b in [(0, 1), (1, 2), (2, 3)]:
    pp.create_pipe_from_parameters(net, j[a], j[b], length_km=0.1, inner_diameter_mm=100.,
                                   index=10 + a)

cases = [("list", [10, 12], [10, 12]), ("array", np.array([10, 12]), [10, 12]),
         ("pd.Index", pd.Index([10, 12]), [10, 12]), ("True", True, [10, 11, 12]),
         ("False", False, []), ("np.True_", np.True_, [10, 11, 12]), ("np.False_", np.False_, []),
         ("tuple", (10, 12), [10, 12]), ("set", {10, 12}, [10, 12])]
bad = []
for name, include, expected in cases:
    for multi in (True, False):
        try:
            mg = top.create_nxgraph(net, include_pipes=include, multi=multi)
            keys = [k for _, _, k in mg.edges(keys=True)] if multi else \
                [d["key"] for _, _, d in mg.edges(data=True)]
            got = sorted(int(k[1]) for k in keys if k[0] == "pipe")
        except Exception as e:
            got = "%s: %s" % (type(e).__name__, str(e)[:60])
        if multi:
            print("include_pipes=%-10s -> pipe edges %s" % (name, got))
        if got != expected:
            bad.append((name, multi))

if bad:
    print("VIOLATION: include_pipes variants that do not yield the requested edges:", bad)
    sys.exit(1)
print("ok")
