"""C18 finding 7: calc_minimum_distance_to_junctions ignores its weight argument.

Net: ext_grid at junction 0, chain 0 -0.1km- 1 -0.2km- 2 -0.4km- 3.
calc_distance_to_junction(s)(..., weight=None) return the topological distance (number of edges),
as documented for all three distance functions ("If weight=None dist is the topological distance").
calc_minimum_distance_to_junctions passes `weight` to create_nxgraph (where it is swallowed by
**kwargs) and calls Dijkstra without it, so weight=None still returns kilometres.
"""
import sys
import warnings

import pandapipes as pp
import pandapipes.topology as top

warnings.filterwarnings("ignore")

net = pp.create_empty_network(fluid="water")
j = [pp.create_junction(net, pn_bar=1., tfluid_k=300.) for _ in range(4)]
pp.create_ext_grid(net, j[0], p_bar=1., t_k=300.)
for a, b, length in [(0, 1, 0.1), (1, 2, 0.2), (2, 3, 0.4)]:
    pp.create_pipe_from_parameters(net, j[a], j[b], length_km=length, inner_diameter_mm=100.)

km = {0: 0.0, 1: 0.1, 2: 0.3, 3: 0.7}
hops = {0: 0, 1: 1, 2: 2, 3: 3}
bad = []
for name, func, src in [("calc_distance_to_junction", top.calc_distance_to_junction, j[0]),
                        ("calc_distance_to_junctions", top.calc_distance_to_junctions, [j[0]]),
                        ("calc_minimum_distance_to_junctions",
                         top.calc_minimum_distance_to_junctions, [j[0]])]:
    d_km = {int(k): round(float(v), 9) for k, v in func(net, src).items()}
    d_hops = {int(k): round(float(v), 9) for k, v in func(net, src, weight=None).items()}
    print("%-36s weight='weight': %s   weight=None: %s" % (name, d_km, d_hops))
    if d_km != km:
        bad.append((name, "weight"))
    if d_hops != hops:
        bad.append((name, None))

if bad:
    print("VIOLATION: wrong distances for", bad)
    sys.exit(1)
print("ok")
