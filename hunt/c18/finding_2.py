"""C18 finding 2: two junction-pipe valves at the same pipe end, one open and one closed.

Net: ext_grid at junction 0, pipe 0 from junction 0 to junction 1 (sink), and two valves with
et="pi" that both sit between junction 0 and pipe 0: valve 0 is open, valve 1 is closed.
The solver gives both valves the same internal valve node, i.e. they are parallel: the pipe stays
supplied through the open one and junction 1 gets a pressure.  The graph removes the pipe's edge as
soon as ANY attached valve is closed, so unsupplied_junctions reports junction 1.
"""
import sys
import warnings

import pandapipes as pp
import pandapipes.topology as top

warnings.filterwarnings("ignore")

net = pp.create_empty_network(fluid="water")
j0, j1 = (pp.create_junction(net, pn_bar=1., tfluid_k=300.) for _ in range(2))
pp.create_ext_grid(net, j0, p_bar=1., t_k=300., type="pt")
pipe = pp.create_pipe_from_parameters(net, j0, j1, length_km=0.1, inner_diameter_mm=100.)
pp.create_valve(net, j0, pipe, et="pi", inner_diameter_mm=100., opened=True)
pp.create_valve(net, j0, pipe, et="pi", inner_diameter_mm=100., opened=False)
pp.create_sink(net, j1, mdot_kg_per_s=0.1)

pp.pipeflow(net)
assert net.converged
no_pressure = set(net.res_junction.index[net.res_junction.p_bar.isna()])
reported = {int(j) for j in top.unsupplied_junctions(net)} | \
    set(net.junction.index[~net.junction.in_service])
edges = [k for _, _, k in top.create_nxgraph(net).edges(keys=True)]

print("res_junction.p_bar                :", net.res_junction.p_bar.round(4).tolist())
print("res_pipe.mdot_from_kg_per_s       :", net.res_pipe.mdot_from_kg_per_s.round(4).tolist())
print("junctions without pressure result :", sorted(no_pressure))
print("unsupplied_junctions (+ oos)      :", sorted(reported))
print("graph edges                       :", edges)

if reported != no_pressure:
    print("VIOLATION: the graph drops pipe 0 (one of its two parallel pipe valves is closed) and "
          "calls junction 1 unsupplied, the solver supplies it through the open valve.")
    sys.exit(1)
print("ok")
