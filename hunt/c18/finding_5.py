"""C18 finding 5: weighting_mass_circ_pumps / weighting_pressure_circ_pumps are silently ignored.

create_nxgraph has the explicit parameters weighting_mass_circ_pumps and
weighting_pressure_circ_pumps ("If None, weight is set to 0").  The include_/respect_status_
keywords of the circulation pumps are looked up as "<...>_mass_circ_pumps", but the weight getter
is looked up as "weighting_%ss" % table_name = "weighting_circ_pump_masss", which never matches.
The same weighting function works for every other branch component.
"""
import sys
import warnings

import numpy as np
import pandapipes as pp
import pandapipes.topology as top

warnings.filterwarnings("ignore")

net = pp.create_empty_network(fluid="water")
j = [pp.create_junction(net, pn_bar=1., tfluid_k=300.) for _ in range(4)]
pp.create_circ_pump_const_mass_flow(net, j[0], j[1], p_flow_bar=3., mdot_flow_kg_per_s=1., t_flow_k=300.)
pp.create_circ_pump_const_pressure(net, j[0], j[2], p_flow_bar=3., plift_bar=1., t_flow_k=300.)
pp.create_pipe_from_parameters(net, j[1], j[0], length_km=0.1, inner_diameter_mm=100.)
pp.create_pump(net, j[2], j[3], std_type="P1")
pp.create_flow_control(net, j[3], j[0], controlled_mdot_kg_per_s=0.1)

seven = (lambda net, tab, value: np.full(len(tab), value), (7.,))
kw = {"weighting_%s" % k: seven for k in
      ["pipes", "pumps", "flow_controls", "mass_circ_pumps", "pressure_circ_pumps"]}

bad = []
for multi in (True, False):
    mg = top.create_nxgraph(net, multi=multi, **kw)
    for a, b, d in mg.edges(data=True):
        key = d["key"] if not multi else None
        print("multi=%-5s edge %s-%s %s weight=%s" % (multi, a, b, key or "", d["weight"]))
    if multi:
        for a, b, key, w in mg.edges(keys=True, data="weight"):
            if w != 7.:
                bad.append((key, w))
    else:
        bad += [(d["key"], d["weight"]) for _, _, d in mg.edges(data=True) if d["weight"] != 7.]
    dist = top.nx.single_source_dijkstra_path_length(mg, j[0])
    print("  distances from junction 0:", {int(k): float(v) for k, v in dist.items()})

if bad:
    print("VIOLATION: the requested weight 7.0 was not applied to:", bad)
    sys.exit(1)
print("ok")
