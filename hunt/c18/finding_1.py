"""C18 finding 1: a pressure controller is a one-way branch for the solver, but a two-way edge for the graph.

Net: junction 0 --pipe-- junction 1 --press_control(from 1, to 2)--> junction 2 [ext_grid].
The only pressure source sits on the to-side of the pressure controller.  The pipeflow's
connectivity check treats pressure controllers as directed (from -> to), so junctions 0 and 1
get no pressure result.  unsupplied_junctions reports nothing for the same net.
"""
import sys
import warnings

import networkx as nx
import pandapipes as pp
import pandapipes.topology as top

warnings.filterwarnings("ignore")

net = pp.create_empty_network(fluid="water")
j0, j1, j2 = (pp.create_junction(net, pn_bar=1., tfluid_k=300.) for _ in range(3))
pp.create_ext_grid(net, j2, p_bar=1., t_k=300., type="pt")
pp.create_pipe_from_parameters(net, j0, j1, length_km=0.1, inner_diameter_mm=100.)
pp.create_pressure_control(net, from_junction=j1, to_junction=j2, controlled_junction=j2,
                           controlled_p_bar=1.)
pp.create_sink(net, j0, mdot_kg_per_s=0.)

pp.pipeflow(net)
assert net.converged
no_pressure = set(net.res_junction.index[net.res_junction.p_bar.isna()])
out_of_service = set(net.junction.index[~net.junction.in_service])
reported = {int(j) for j in top.unsupplied_junctions(net)} | out_of_service

mg = top.create_nxgraph(net)
comp_of_slack = {int(j) for j in nx.node_connected_component(mg, j2)}

print("junctions without pressure result :", sorted(no_pressure))
print("unsupplied_junctions (+ oos)      :", sorted(reported))
print("graph component of the ext_grid   :", sorted(comp_of_slack))

if reported != no_pressure:
    print("VIOLATION: unsupplied_junctions does not report the junctions the solver leaves "
          "without pressure (pressure controller only passes supply from -> to).")
    sys.exit(1)
print("ok")
