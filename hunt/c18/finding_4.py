"""C18 finding 4: graph creation crashes for an out-of-service junction in nogo-/notravjunctions.

Net (consistent outage pattern): ext_grid at junction 0, pipe 0-1, and junction 2 out of service
together with everything attached to it (pipe 1-2 out of service, valve 1-2 closed).
 a) create_nxgraph(net, nogojunctions=[2]) / calc_distance_to_junction(net, 0, nogojunctions=[2]):
    the junction is removed as nogo junction and then again as out-of-service junction
    -> NetworkXError instead of a graph / distances.
 b) calc_distance_to_junctions(net, [0], respect_status_valves=False, notravjunctions=[1]):
    the notrav handling deletes only one direction of the adjacency (1 -> 2); removing the
    out-of-service junction 2 afterwards hits the missing entry -> KeyError.
Expected: junction 2 is simply absent, distances {0: 0.0, 1: 0.1}.
"""
import sys
import warnings

import pandapipes as pp
import pandapipes.topology as top

warnings.filterwarnings("ignore")

net = pp.create_empty_network(fluid="water")
j0, j1, j2 = (pp.create_junction(net, pn_bar=1., tfluid_k=300.) for _ in range(3))
pp.create_ext_grid(net, j0, p_bar=1., t_k=300.)
pp.create_pipe_from_parameters(net, j0, j1, length_km=0.1, inner_diameter_mm=100.)
pp.create_pipe_from_parameters(net, j1, j2, length_km=0.2, inner_diameter_mm=100., in_service=False)
pp.create_valve(net, j1, j2, et="ju", inner_diameter_mm=100., opened=False)
net.junction.loc[j2, "in_service"] = False

expected = {j0: 0.0, j1: 0.1}
failures = []
calls = {
    "create_nxgraph(nogojunctions=[2])":
        lambda: dict.fromkeys(top.create_nxgraph(net, nogojunctions=[j2]).nodes) and expected,
    "calc_distance_to_junction(0, nogojunctions=[2])":
        lambda: top.calc_distance_to_junction(net, j0, nogojunctions=[j2]).to_dict(),
    "calc_distance_to_junctions([0], respect_status_valves=False, notravjunctions=[1])":
        lambda: top.calc_distance_to_junctions(net, [j0], respect_status_valves=False,
                                               notravjunctions=[j1]).to_dict(),
}
for name, call in calls.items():
    try:
        res = {int(k): round(float(v), 9) for k, v in call().items()}
        print("%-85s -> %s" % (name, res))
        if res != expected:
            failures.append(name)
    except Exception as e:
        print("%-85s -> %s: %s" % (name, type(e).__name__, e))
        failures.append(name)

if failures:
    print("VIOLATION: %d of %d calls on a consistently switched-off junction fail." %
          (len(failures), len(calls)))
    sys.exit(1)
print("ok")
