"""C18 finding 6: on the simple graph (multi=False) the distance over parallel branches depends on
the creation order instead of being the shortest path.

Net: ext_grid at junction 0; two parallel pipes 0-1 of 0.1 km (pipe 0) and 2.0 km (pipe 1);
pipe 1-2 of 0.3 km.  The shortest path 0 -> 2 measures 0.1 + 0.3 = 0.4 km, which is what
calc_distance_to_junction (MultiGraph) returns.  In create_nxgraph(multi=False) the parallel
branches collapse into one edge whose weight is that of the branch added LAST (2.0 km), so the
shortest-path sum on the simple graph is 2.3 km; swapping the two pipe lengths gives 0.4 km.
"""
import sys
import warnings

import networkx as nx
import pandapipes as pp
import pandapipes.topology as top

warnings.filterwarnings("ignore")


def build(lengths):
    net = pp.create_empty_network(fluid="water")
    j0, j1, j2 = (pp.create_junction(net, pn_bar=1., tfluid_k=300.) for _ in range(3))
    pp.create_ext_grid(net, j0, p_bar=1., t_k=300.)
    for length in lengths:
        pp.create_pipe_from_parameters(net, j0, j1, length_km=length, inner_diameter_mm=100.)
    pp.create_pipe_from_parameters(net, j1, j2, length_km=0.3, inner_diameter_mm=100.)
    return net


bad = []
for lengths in [(0.1, 2.0), (2.0, 0.1)]:
    net = build(lengths)
    expected = {0: 0.0, 1: 0.1, 2: 0.4}
    d_multi = top.calc_distance_to_junction(net, 0).round(9).to_dict()
    sg = top.create_nxgraph(net, multi=False)
    d_simple = {int(k): round(float(v), 9)
                for k, v in nx.single_source_dijkstra_path_length(sg, 0, weight="weight").items()}
    print("parallel pipe lengths %s: multigraph %s | simple graph %s (edge 0-1: %s)"
          % (lengths, d_multi, d_simple, sg.get_edge_data(0, 1)))
    if d_multi != expected:
        bad.append(("multi", lengths))
    if d_simple != expected:
        bad.append(("simple", lengths))

if bad:
    print("VIOLATION: distances are not the shortest-path sums of pipe lengths for", bad)
    sys.exit(1)
print("ok")
