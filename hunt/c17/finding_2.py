"""C17 - drop_junctions / drop_pipes with a one-shot iterable (generator, map, filter object; the
documented parameter type is "Iterable") remove the junction / pipe rows but nothing else: the
iterable is exhausted by the first DataFrame.drop, so geodata, results, connected elements and
junction-pipe valves stay behind and reference missing junctions / pipes."""
import sys
import pandapipes as pp
from pandapipes.toolbox import drop_junctions, drop_pipes


def build():
    net = pp.create_empty_network(fluid="water")
    for j in (3, 7, 21):
        pp.create_junction(net, 5, 320, index=j, geodata=(j, j))
    pp.create_ext_grid(net, 3, 5, 320)
    pp.create_pipe_from_parameters(net, 3, 7, 0.1, 100, index=7)
    pp.create_pipe_from_parameters(net, 7, 21, 0.1, 100, index=3, geodata=[(7, 7), (21, 21)])
    pp.create_valve(net, 7, 3, "pi", 100)           # junction-pipe valve on pipe 3
    pp.create_sink(net, 21, 0.1)
    pp.pipeflow(net)
    return net


msgs = []
# reference behaviour with a list
ref = build()
drop_junctions(ref, [21])
assert 3 not in ref.pipe.index and len(ref.valve) == 0 and len(ref.sink) == 0

net = build()
drop_junctions(net, (j for j in net.junction.index if j > 20))     # same set {21} as generator
js = set(net.junction.index)
if set(net.pipe.to_junction) - js:
    msgs.append("drop_junctions: pipe.to_junction references missing %s" % (set(net.pipe.to_junction) - js))
if set(net.sink.junction) - js:
    msgs.append("drop_junctions: sink.junction references missing %s" % (set(net.sink.junction) - js))
if set(net.junction_geodata.index) - js or set(net.res_junction.index) - js:
    msgs.append("drop_junctions: junction_geodata / res_junction rows of the dropped junction remain")

net = build()
drop_pipes(net, filter(lambda p: p == 3, net.pipe.index))         # same set {3} as filter object
ps = set(net.pipe.index)
pv = net.valve[net.valve.et == "pi"]
if set(pv.element) - ps:
    msgs.append("drop_pipes: junction-pipe valve references missing pipe %s" % (set(pv.element) - ps))
if set(net.pipe_geodata.index) - ps or set(net.res_pipe.index) - ps:
    msgs.append("drop_pipes: pipe_geodata / res_pipe rows of the dropped pipe remain")

if msgs:
    print("VIOLATION:\n  " + "\n  ".join(msgs))
    sys.exit(1)
print("ok")
