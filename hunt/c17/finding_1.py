"""C17 - fuse_junctions(net, j1, j2) with a scalar j2 equal to j1 drops j1 and leaves every
element that was connected to it pointing to a missing junction.
For an iterable j2 the function removes j1 from the set first (fuse_junctions(net, 7, [7]) is a
no-op), for the scalar form of the same junction set it does not."""
import sys
import pandapipes as pp
from pandapipes.toolbox import fuse_junctions, element_junction_tuples


def build():
    net = pp.create_empty_network(fluid="water")
    for j in (3, 7, 21, 5):
        pp.create_junction(net, 5, 320, index=j, geodata=(j, j))
    pp.create_ext_grid(net, 3, 5, 320)
    pp.create_pipe_from_parameters(net, 3, 7, 0.1, 100, index=7)
    pp.create_pipe_from_parameters(net, 7, 21, 0.1, 100, index=3)
    pp.create_valve(net, 7, 3, "pi", 100)           # junction-pipe valve at junction 7 on pipe 3
    pp.create_pressure_control(net, 21, 5, 5, 3.0)
    pp.create_sink(net, 7, 0.1)
    return net


def dangling(net):
    js, ps, out = set(net.junction.index), set(net.pipe.index), []
    for tbl, col in sorted(element_junction_tuples(net=net)):
        t = net[tbl]
        if tbl == "valve" and col == "element":
            if set(t.loc[t.et == "pi", col]) - ps or set(t.loc[t.et == "ju", col]) - js:
                out.append("valve.element")
        elif set(t[col]) - js:
            out.append("%s.%s -> %s" % (tbl, col, sorted(set(t[col]) - js)))
    return out


ref = build()
fuse_junctions(ref, 7, [7])                          # iterable form: nothing happens
assert 7 in ref.junction.index and not dangling(ref)

net = build()
fuse_junctions(net, 7, 7)                            # scalar form of the same (empty) fusion
bad = dangling(net)
if 7 not in net.junction.index or bad:
    print("VIOLATION: fuse_junctions(net, 7, 7) removed junction 7 (still in table: %s); "
          "dangling references: %s" % (7 in net.junction.index, bad))
    sys.exit(1)
print("ok")
