"""C17 - sequence select_subnet -> select_subnet / drop_pipes.
select_subnet(..., remove_unused_components=True) on a junction set without pipes deletes the
"pipe" table but keeps "pipe_geodata" (and empty res_* tables). On that net the follow-up
operations select_subnet(keep_everything_else=True) and drop_pipes raise instead of behaving like
the composition (select_subnet(net, [14]) directly on the original net works)."""
import sys
import pandapipes as pp
from pandapipes.toolbox import select_subnet, drop_pipes

net = pp.create_empty_network(fluid="water")
for j in (3, 14, 2, 9):
    pp.create_junction(net, 5, 320, index=j)
pp.create_ext_grid(net, 3, 5, 320)
pp.create_pipe_from_parameters(net, 3, 14, 0.1, 100, index=14)
pp.create_valve(net, 14, 2, "ju", 100, index=3)
pp.create_pipe_from_parameters(net, 2, 9, 0.1, 100, index=2)
pp.create_valve(net, 2, 2, "pi", 100, index=14)     # junction-pipe valve on pipe 2
pp.create_sink(net, 9, 0.1)
pp.pipeflow(net)

direct = select_subnet(net, [14], include_results=True, keep_everything_else=True)
assert list(direct.junction.index) == [14]

sub = select_subnet(net, [14, 2], include_results=True, remove_unused_components=True)
assert list(sub.valve.index) == [3]                 # only the junction-junction valve survives
msgs = []
try:
    sub2 = select_subnet(sub, [14], include_results=True, keep_everything_else=True)
    if list(sub2.junction.index) != [14]:
        msgs.append("select o select differs from direct select")
except Exception as e:
    msgs.append("select_subnet after select_subnet(remove_unused_components=True) raised %r" % e)
try:
    drop_pipes(sub, [])
except Exception as e:
    msgs.append("drop_pipes(sub, []) after select_subnet(remove_unused_components=True) raised %r" % e)
stale = [k for k in sub.keys() if k.startswith("res_") and k[4:] not in sub]
if stale:
    msgs.append("result tables without element table left behind: %s" % stale)
if msgs:
    print("VIOLATION:\n  " + "\n  ".join(msgs))
    sys.exit(1)
print("ok")
