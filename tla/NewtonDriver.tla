------------------------------ MODULE NewtonDriver ------------------------------
(* Model of the documented Newton driver of pandapipes (pipeflow.newton_raphson /      *)
(* finalize_iteration / set_damping_factor).  The environment chooses, per iteration,  *)
(* an observation: are all last-step changes within their tolerances, is the residual   *)
(* within tol_res, did the change of every unknown increase w.r.t. the last iteration.  *)
(* alpha = 10^aexp.                                                                     *)
EXTENDS Integers
CONSTANTS MaxIter, Automatic, InitDamp   \* initial alpha = 10^(-InitDamp)
VARIABLES niter, aexp, conv, obs

vars == <<niter, aexp, conv, obs>>
Obs == [within : BOOLEAN, resok : BOOLEAN, allup : BOOLEAN]
NoObs == [within |-> FALSE, resok |-> FALSE, allup |-> FALSE]

Init == /\ niter = 0 /\ aexp = 0 - InitDamp /\ conv = FALSE /\ obs = NoObs

NewExp(o) == IF Automatic
             THEN IF o.allup THEN (IF aexp >= -1 THEN aexp - 1 ELSE aexp)
                             ELSE (IF aexp <= -1 THEN aexp + 1 ELSE 0)
             ELSE aexp

Step(o) == /\ ~conv /\ niter < MaxIter
           /\ (niter = 0 => ~o.allup)                         \* first change is compared with itself
           /\ ((o.allup /\ o.within /\ niter > 0) => obs.within)  \* growing and within needs a within predecessor
           /\ aexp' = NewExp(o)
           /\ conv' = (o.within /\ o.resok /\ (Automatic => NewExp(o) = 0))
           /\ niter' = niter + 1
           /\ obs' = o

Next == \E o \in Obs : Step(o)
Spec == Init /\ [][Next]_vars

TypeOK == niter \in 0..MaxIter /\ aexp \in -3..0 /\ conv \in BOOLEAN /\ obs \in Obs
Inv == conv => (obs.within /\ obs.resok /\ (Automatic => aexp = 0))
Budget == niter <= MaxIter
=============================================================================
