"""Scripted environment for the real Newton driver (pandapipes.pipeflow.newton_raphson).

The linearisation callback is replaced by a stub that, in iteration i, returns iterates realising the
i-th letter of a script: for every unknown vector the size of its last change (a multiple of its
tolerance or NaN) and the residual norm (a multiple of tol_res or NaN)."""
import sys
import math
import numpy as np
from mc import core  # noqa
import pandapipes as pp
from pandapipes.pf import pipeflow_setup as ps
from pandapipes import idx_branch as IB, idx_node as IN

PF = sys.modules["pandapipes.pipeflow"]
if not hasattr(PF, "newton_raphson"):
    import importlib
    PF = importlib.import_module("pandapipes.pipeflow")

TOLS = {"tol_m": 1e-5, "tol_p": 4e-5, "tol_T": 1e-3, "tol_res": 2e-3}   # pairwise distinct: a swapped tolerance list is visible

# per stage: the unknown vectors the stage's linearisation returns (name, pit, column, tolerance key, filtered?)
STAGES = {
    "hydraulics": {
        "unknowns": [("mdot", "branch", IB.MDOTINIT, "tol_m", False), ("p", "node", IN.PINIT, "tol_p", False),
                     ("mdotslack", "node", IN.MDOTSLACKINIT, "tol_m", True)],
        "iter_name": "max_iter_hyd", "mode": "hydraulics",
        "call": lambda net, f: PF.newton_raphson(net, f, "hydraulics", ["mdot", "p", "mdotslack"],
                                                 [TOLS["tol_m"], TOLS["tol_p"], TOLS["tol_m"]],
                                                 ["branch", "node", "node"], "max_iter_hyd")},
    "heat": {
        "unknowns": [("Tout", "branch", IB.TOUTINIT, "tol_T", False), ("T", "node", IN.TINIT, "tol_T", False)],
        "iter_name": "max_iter_therm", "mode": "heat",
        "call": lambda net, f: PF.newton_raphson(net, f, "heat", ["Tout", "T"], [TOLS["tol_T"], TOLS["tol_T"]],
                                                 ["branch", "node"], "max_iter_therm")},
}


def make_net():
    net = pp.create_empty_network(fluid="water")
    j = pp.create_junctions(net, 3, 5, 300)
    pp.create_ext_grid(net, j[0], 5, 300)
    pp.create_pipe_from_parameters(net, j[0], j[1], 0.1, 50)
    pp.create_pipe_from_parameters(net, j[1], j[2], 0.1, 50)
    pp.create_sink(net, j[2], 0.1)
    return net


_BASE = None


class Script:
    """letter = (levels, reslevel): levels[v] is the size of the last change of unknown v in units of its tolerance
    (float) or None for NaN; reslevel likewise for the residual."""

    def __init__(self, stage, letters, method="constant", alpha=1.0, max_iter=None):
        self.stage = stage
        self.letters = letters
        self.method = method
        self.alpha = alpha
        self.max_iter = max_iter if max_iter is not None else len(letters)


def run_script(sc, bidirectional_call=None):
    """Runs the real driver on a real net with the scripted linearisation.  Returns an observation dict."""
    global _BASE
    if _BASE is None:
        net = make_net()
        ps.init_options(net, **TOLS)
        ps.create_lookups(net)
        ps.initialize_pit(net)
        _BASE = (net, net["_pit"]["node"].copy(), net["_pit"]["branch"].copy(), dict(net["_options"]))
    net, npit0, bpit0, opts0 = _BASE
    opts = dict(TOLS)
    st = STAGES[sc.stage] if sc.stage in STAGES else None
    unknowns = st["unknowns"] if st else BIDIR_UNKNOWNS
    iter_name = st["iter_name"] if st else "max_iter_bidirect"
    o = dict(opts0)
    o.update({"nonlinear_method": sc.method, "alpha": sc.alpha, iter_name: sc.max_iter})
    net["_options"] = o
    net.pop("_internal_results", None)
    npit = npit0.copy()
    bpit = bpit0.copy()
    net["_active_pit"] = {"node": npit, "branch": bpit}
    slack = np.where(npit[:, IN.NODE_TYPE] == IN.P)[0]
    net.converged = False
    calls = {"n": 0, "olds": [], "news": [], "alpha_seen": []}

    def funct(net_):
        i = calls["n"]
        calls["n"] += 1
        calls["alpha_seen"].append(net_["_options"]["alpha"])
        levels, reslevel = sc.letters[i]
        results = []
        olds, news = [], []
        for (name, pit, col, tolkey, filt), lev in zip(unknowns, levels):
            arr = net_["_active_pit"][pit]
            rows = slack if filt else np.arange(arr.shape[0])
            old = np.zeros(len(rows))  # exact arithmetic: the change is exactly lev * tol (boundary cases decidable)
            new = old.copy()
            if lev is None:
                new[0] = np.nan
            else:
                new[0] = old[0] + lev * opts[tolkey] * (1 if i % 2 == 0 else -1)
            # like the real linearisation, the new iterate is written to the active pit
            arr[rows, col] = new
            results += [arr[rows, col].copy() if filt else arr[:, col], old]
            olds.append(old)
            news.append(new)
        calls["olds"].append(olds)
        calls["news"].append(news)
        res = np.array([np.nan]) if reslevel is None else np.array([0.0, reslevel * opts["tol_res"], 0.0])
        if st is not None and sc.stage == "hydraulics":
            filtered = [None, None, slack]
        elif st is not None:
            filtered = [None, None]
        else:
            filtered = [None, None, slack, None, None]
        return results, res, filtered

    exc = None
    try:
        if st is not None:
            st["call"](net, funct)
        else:
            bidirectional_call(net, funct)
    except Exception as e:  # the driver itself must not raise
        exc = e
    ir = net.get("_internal_results", {})
    obs = {"converged": bool(net.converged), "calls": calls["n"], "alpha": net["_options"]["alpha"],
           "alpha_seen": calls["alpha_seen"], "internal": ir, "exc": exc,
           "pit": {"node": net["_active_pit"]["node"], "branch": net["_active_pit"]["branch"]},
           "olds": calls["olds"], "news": calls["news"], "slack": slack, "unknowns": unknowns}
    return obs


BIDIR_UNKNOWNS = STAGES["hydraulics"]["unknowns"] + STAGES["heat"]["unknowns"]


def bidir_call(net, funct):
    """what pandapipes.pipeflow.bidirectional passes to the driver (kept in sync by the check: the argument list
    is read from the source of bidirectional at run time)"""
    import inspect
    import re
    src = inspect.getsource(PF.bidirectional)
    m = re.search(r"solver_vars\s*=\s*(\[[^\]]*\])", src)
    solver_vars = eval(m.group(1))
    tol_m, tol_p, tol_temp = TOLS["tol_m"], TOLS["tol_p"], TOLS["tol_T"]
    m2 = re.search(r"newton_raphson\(\s*net,\s*solve_bidirectional,\s*'bidirectional',\s*solver_vars,\s*(\[[^\]]*\]),\s*(\[[^\]]*\]),",
                   src)
    tols = eval(m2.group(1), {"tol_m": tol_m, "tol_p": tol_p, "tol_temp": tol_temp, "tol_T": tol_temp})
    pits = eval(m2.group(2))
    return PF.newton_raphson(net, funct, "bidirectional", solver_vars, tols, pits, "max_iter_bidirect")


# --------------------------------------------------------------------------------------------------
# reference model of the documented driver semantics (python twin of tla/NewtonDriver.tla, concrete letters)
# --------------------------------------------------------------------------------------------------
def model_run(letters, method, alpha, max_iter):
    """returns list of (niter, alpha, converged) after each executed iteration"""
    conv = False
    prev = None
    trace = []
    n = 0
    a = alpha
    while not conv and n < max_iter and n < len(letters):
        levels, res = letters[n]
        within = all(l is not None and l <= 1.0 for l in levels)
        resok = res is not None and res <= 1.0
        if method == "automatic":
            if prev is None:
                up = [False] * len(levels)
            else:
                up = [(l is not None and p is not None and l > p) for l, p in zip(levels, prev)]
            if all(up):
                a = a / 10 if a >= 0.1 else a
            else:
                a = a * 10 if a <= 0.1 else 1.0
            undamped = abs(a - 1.0) < 1e-12
        else:
            up = [False] * len(levels)
            undamped = True
        conv = within and resok and undamped
        prev = levels
        n += 1
        trace.append((n, a, conv, up))
    return trace
