"""NetSpec: a JSON-able description of a network as an ordered list of build operations.

spec = {"fluid": "water", "ops": [ {"op": "junction", "id": "j0", ...}, ... ]}

Every op has a stable element id ("id"); junction references are ids; an optional "index" gives the
explicit table label.  build(spec) uses only the public pandapipes.create_* functions.
Results of different variants of a network are joined on element id, never on position.
"""
import copy
import numpy as np
import pandas as pd

from mc import core  # noqa: F401  (path setup)
import pandapipes as pp

BRANCH_TABLES = ["pipe", "valve", "pump", "compressor", "flow_control", "press_control", "heat_exchanger",
                 "heat_consumer", "circ_pump_mass", "circ_pump_pressure"]
NODE_ELEMENT_TABLES = ["sink", "source", "mass_storage", "ext_grid"]
OP_TABLE = {
    "junction": "junction", "pipe": "pipe", "valve": "valve", "pump": "pump", "compressor": "compressor",
    "flow_control": "flow_control", "press_control": "press_control", "heat_exchanger": "heat_exchanger",
    "heat_consumer": "heat_consumer", "circ_pump_mass": "circ_pump_mass",
    "circ_pump_pressure": "circ_pump_pressure", "ext_grid": "ext_grid", "sink": "sink", "source": "source",
    "mass_storage": "mass_storage",
}


def _j(idmap, ref):
    return idmap[ref][1]


def _kw(op, *names):
    return {n: op[n] for n in names if n in op}


def build(spec, sector=None):
    kw = {}
    if sector is not None:
        kw["sector"] = sector
    net = pp.create_empty_network(name=spec.get("name", ""), fluid=spec.get("fluid", "water"), **kw)
    idmap = {}
    for op in spec["ops"]:
        apply_op(net, op, idmap)
    # status flags written by the user as 0 / 1 (e.g. net.sink.in_service = 0): integer instead of boolean column
    for table, col in spec.get("int_flags", []):
        if table in net and len(net[table]):
            net[table][col] = net[table][col].astype("int64")
    return net, idmap


def apply_op(net, op, idmap):
    k = op["op"]
    idx = op.get("index")
    ins = op.get("in_service", True)
    if k == "junction":
        r = pp.create_junction(net, op.get("pn_bar", 5.0), op.get("tfluid_k", 300.0), height_m=op.get("height_m", 0.0),
                               index=idx, in_service=ins, name=op["id"])
    elif k == "pipe":
        r = pp.create_pipe_from_parameters(
            net, _j(idmap, op["from"]), _j(idmap, op["to"]), op.get("length_km", 0.3),
            op.get("d_mm", 50.0), k_mm=op.get("k_mm", 0.1), loss_coefficient=op.get("zeta", 0.0),
            sections=op.get("sections", 1), u_w_per_m2k=op.get("u", 0.0), text_k=op.get("text_k", None),
            outer_diameter_mm=op.get("do_mm", None), qext_w=op.get("qext_w", 0.0),
            index=idx, in_service=ins, name=op["id"])
    elif k == "pipe_std":
        r = pp.create_pipe(net, _j(idmap, op["from"]), _j(idmap, op["to"]), op["std_type"], op.get("length_km", 0.3),
                           sections=op.get("sections", 1), index=idx, in_service=ins, name=op["id"],
                           **_kw(op, "text_k", "loss_coefficient"))
    elif k == "valve":
        et = op.get("et", "ju")
        if et == "ju":
            el = _j(idmap, op["to"])
        else:
            el = idmap[op["pipe"]][1]
        r = pp.create_valve(net, _j(idmap, op["from"]), el, et, op.get("d_mm", 50.0), opened=op.get("opened", True),
                            loss_coefficient=op.get("zeta", 0.0), index=idx, name=op["id"])
    elif k == "pump":
        r = pp.create_pump(net, _j(idmap, op["from"]), _j(idmap, op["to"]), op.get("std_type", "P1"), index=idx,
                           in_service=ins, name=op["id"])
    elif k == "compressor":
        r = pp.create_compressor(net, _j(idmap, op["from"]), _j(idmap, op["to"]), op.get("ratio", 1.3), index=idx,
                                 in_service=ins, name=op["id"])
    elif k == "flow_control":
        r = pp.create_flow_control(net, _j(idmap, op["from"]), _j(idmap, op["to"]), op.get("mdot", 0.1),
                                   control_active=op.get("control_active", True), index=idx, in_service=ins,
                                   name=op["id"])
    elif k == "press_control":
        r = pp.create_pressure_control(net, _j(idmap, op["from"]), _j(idmap, op["to"]),
                                       _j(idmap, op.get("controlled", op["to"])), op.get("p_bar", 4.5),
                                       control_active=op.get("control_active", True),
                                       loss_coefficient=op.get("zeta", 0.0), index=idx, in_service=ins,
                                       name=op["id"], check_controllability=op.get("check_controllability", True))
        if r is None:
            raise ValueError("pressure control not created (not controllable)")
    elif k == "heat_exchanger":
        r = pp.create_heat_exchanger(net, _j(idmap, op["from"]), _j(idmap, op["to"]), op.get("qext_w", 1000.0),
                                     op.get("d_mm", 50.0), loss_coefficient=op.get("zeta", 0.0), index=idx,
                                     in_service=ins, name=op["id"])
    elif k == "heat_consumer":
        r = pp.create_heat_consumer(net, _j(idmap, op["from"]), _j(idmap, op["to"]), index=idx, in_service=ins,
                                    name=op["id"],
                                    **_kw(op, "qext_w", "controlled_mdot_kg_per_s", "deltat_k", "treturn_k"))
    elif k == "circ_pump_mass":
        r = pp.create_circ_pump_const_mass_flow(net, _j(idmap, op["return"]), _j(idmap, op["flow"]),
                                                op.get("p_flow_bar", 5.0), op.get("mdot", 1.0),
                                                t_flow_k=op.get("t_flow_k", 350.0), index=idx, in_service=ins,
                                                name=op["id"], **_kw(op, "type"))
    elif k == "circ_pump_pressure":
        r = pp.create_circ_pump_const_pressure(net, _j(idmap, op["return"]), _j(idmap, op["flow"]),
                                               op.get("p_flow_bar", 5.0), op.get("plift_bar", 1.0),
                                               t_flow_k=op.get("t_flow_k", 350.0), index=idx, in_service=ins,
                                               name=op["id"], **_kw(op, "type"))
    elif k == "ext_grid":
        r = pp.create_ext_grid(net, _j(idmap, op["junction"]), p_bar=op.get("p_bar", 5.0), t_k=op.get("t_k", 300.0),
                               type=op.get("type", "auto"), index=idx, in_service=ins, name=op["id"])
    elif k == "sink":
        r = pp.create_sink(net, _j(idmap, op["junction"]), op.get("mdot", 0.1), scaling=op.get("scaling", 1.0),
                           index=idx, in_service=ins, name=op["id"])
    elif k == "source":
        r = pp.create_source(net, _j(idmap, op["junction"]), op.get("mdot", 0.1), scaling=op.get("scaling", 1.0),
                             index=idx, in_service=ins, name=op["id"])
    elif k == "mass_storage":
        r = pp.create_mass_storage(net, _j(idmap, op["junction"]), op.get("mdot", 0.1),
                                   scaling=op.get("scaling", 1.0), index=idx, in_service=ins, name=op["id"])
    else:
        raise KeyError("unknown op %s" % k)
    table = "pipe" if k == "pipe_std" else OP_TABLE[k]
    idmap[op["id"]] = (table, int(r))
    return r


def results_by_id(net, idmap):
    """{element id: {column: value}} over all result tables (joined on element identity)."""
    out = {}
    for eid, (table, idx) in idmap.items():
        rt = "res_" + table
        if rt in net and idx in net[rt].index:
            row = net[rt].loc[idx]
            out[eid] = {c: float(row[c]) for c in net[rt].columns}
        else:
            out[eid] = None
    return out


# columns that lag the solution by one Newton step (computed at the last linearisation point) or that use a
# nearly-equal-pressure shortcut: compared with a wider relative tolerance
LAGGING_COLS = {"lambda": 1e-6, "reynolds": 1e-6}
GAS_VELOCITY_COLS = {"v_mean_m_per_s": 2e-5, "v_from_m_per_s": 2e-5, "v_to_m_per_s": 2e-5}


def compare_results(ra, rb, rtol=1e-9, atol=1e-9, skip_cols=(), colmap=None, gas=False):
    """Compare two results_by_id dicts on the common ids.  Returns list of (id, col, a, b)."""
    diffs = []
    for eid in ra:
        if eid not in rb:
            continue
        a, b = ra[eid], rb[eid]
        if a is None or b is None:
            if (a is None) != (b is None):
                diffs.append((eid, "<row>", a is None, b is None))
            continue
        zero_flow = abs(a.get("mdot_from_kg_per_s", 1.0)) < 1e-9 or abs(b.get("mdot_from_kg_per_s", 1.0)) < 1e-9
        for c, va in a.items():
            if c in skip_cols or c not in b:
                continue
            if zero_flow and (c in ("lambda", "reynolds") or c.startswith("normfactor")):
                # friction factor / Reynolds number of a branch without flow are round-off noise; such a branch has no
                # inlet or outlet either, so the temperatures behind its norm factors are not defined by the flow
                continue
            vb = b[c]
            if np.isnan(va) and np.isnan(vb):
                continue
            rt = max(rtol, LAGGING_COLS.get(c, 0.0), GAS_VELOCITY_COLS.get(c, 0.0) if gas else 0.0)
            at = max(atol, 1e-7) if c in GAS_VELOCITY_COLS else atol
            if np.isnan(va) != np.isnan(vb) or abs(va - vb) > at + rt * max(abs(va), abs(vb)):
                diffs.append((eid, c, va, vb))
    return diffs


def net_tables_snapshot(net, include_res=True):
    """Deep, comparison-friendly snapshot of all DataFrames of a net."""
    snap = {}
    for k, v in net.items():
        if isinstance(v, pd.DataFrame):
            if k.startswith("_"):
                continue
            if not include_res and k.startswith("res_"):
                continue
            snap[k] = v.copy(deep=True)
    return snap


def frames_equal(a, b, check_dtype=True, float_atol=0.0, float_rtol=0.0):
    if list(a.columns) != list(b.columns):
        return "columns %s vs %s" % (list(a.columns), list(b.columns))
    if not a.index.equals(b.index):
        return "index %s vs %s" % (list(a.index)[:8], list(b.index)[:8])
    if a.index.dtype != b.index.dtype:
        return "index dtype %s vs %s" % (a.index.dtype, b.index.dtype)
    for c in a.columns:
        if check_dtype and a[c].dtype != b[c].dtype:
            return "dtype of %s: %s vs %s" % (c, a[c].dtype, b[c].dtype)
        x, y = a[c].values, b[c].values
        if (float_atol or float_rtol) and a[c].dtype.kind == "f" and b[c].dtype.kind == "f":
            ok = (np.isnan(x) & np.isnan(y)) | (x == y) | (np.abs(x - y) <= float_atol + float_rtol * np.abs(y))
            if not np.all(ok):
                i = int(np.flatnonzero(~ok)[0])
                return "cell %s: %r vs %r" % (c, x[i], y[i])
            continue
        for u, w in zip(x, y):
            if _cell_ne(u, w):
                return "cell %s: %r vs %r" % (c, u, w)
    return None


def _cell_ne(u, w):
    try:
        un = u is None or (isinstance(u, float) and np.isnan(u)) or (u is pd.NA) or (u is pd.NaT)
        wn = w is None or (isinstance(w, float) and np.isnan(w)) or (w is pd.NA) or (w is pd.NaT)
    except Exception:
        un = wn = False
    if un or wn:
        if un and wn:
            # None vs NaN is a difference worth reporting only by type
            return (u is None) != (w is None)
        return True
    if isinstance(u, (np.floating, float)) and isinstance(w, (np.floating, float)):
        if np.isnan(u) and np.isnan(w):
            return False
        return not (u == w)
    try:
        r = (u == w)
        if isinstance(r, (np.ndarray, pd.Series)):
            return not bool(np.all(r))
        return not bool(r)
    except Exception:
        return repr(u) != repr(w)


TIGHT = dict(tol_p=1e-11, tol_m=1e-11, tol_res=1e-9, tol_T=1e-10, max_iter_hyd=100, max_iter_therm=100,
             max_iter_bidirect=100, max_iter_colebrook=200, tolerance_colebrook=1e-13)


def warmup_numba():
    """Compile the numba kernels once (in the parent, before forking workers)."""
    for fluid in ("water", "lgas"):
        net = pp.create_empty_network(fluid=fluid)
        j = pp.create_junctions(net, 3, 5, 300)
        pp.create_ext_grid(net, j[0], 5, 300)
        pp.create_pipe_from_parameters(net, j[0], j[1], 0.1, 50, sections=2, u_w_per_m2k=5)
        pp.create_pipe_from_parameters(net, j[1], j[2], 0.1, 50)
        pp.create_sink(net, j[2], 0.01)
        for fm in ("nikuradse", "colebrook", "swamee-jain"):
            pp.pipeflow(net, use_numba=True, friction_model=fm, mode="sequential" if fluid == "water" else "hydraulics")
    return True


def internal_nodes(net, pos, ns):
    """Pressures / temperatures of the internal section nodes of the pipe at table position pos, read from the
    solver's node table (internal nodes are laid out per pipe in table order, sections-1 nodes each)."""
    if ns <= 1:
        return np.array([]), np.array([])
    from pandapipes.idx_node import PINIT, TINIT
    f, t = net["_lookups"]["node_from_to"]["pipe_nodes"]
    nint = net.pipe.sections.values.astype(int) - 1
    off = f + int(np.sum(nint[:pos]))
    rows = np.arange(off, off + ns - 1)
    assert rows[-1] < t
    npit = net["_pit"]["node"]
    return npit[rows, PINIT].copy(), npit[rows, TINIT].copy()
