"""Scope H (hydraulic networks): skeleton x feeder x deviation-bounded component alphabet -> NetSpec."""
from mc import enum

EDGE_KINDS = ["pipe", "pipe3", "pipe_h", "pipe_rev", "pipe_zeta", "valve", "valve_closed", "pipe_vpi",
              "pipe_vpi_closed", "pipe_vpi2", "pump", "compressor", "fc", "fc_off", "pc", "pc_off", "hex", "pipe_oos"]
LOAD_KINDS = ["sink", "source", "storage_pos", "storage_neg", "two_sinks", "sink_oos", "sink_oos_int", "none", "nan"]
FEEDER_KINDS = ["one", "two_same", "second_other", "two_one_oos", "type_p", "three_interleaved"]
LABEL_KINDS = ["range", "shift", "desc", "big", "rev"]
FRICTION = ["nikuradse", "colebrook", "swamee-jain"]


def labels(kind, n):
    if kind == "range":
        return list(range(n))
    if kind == "shift":
        return [3 + 4 * i for i in range(n)]
    if kind == "desc":
        return [10 * (n - i) for i in range(n)]
    if kind == "rev":
        return [n - 1 - i for i in range(n)]   # a permutation of 0..n-1: label != table position, still a valid row number
    if kind == "big":
        return [100000 + 7 * i if i == n - 1 else 2 * i + 1 for i in range(n)]
    raise KeyError(kind)


def h_dims(n, edges, feeder, fluid, with_config=True, with_labels=True):
    dims = []
    for ei in range(len(edges)):
        kinds = [k for k in EDGE_KINDS if not (k == "compressor" and fluid == "water")]
        dims.append(("e%d" % ei, kinds))
    for j in range(n):
        if j != feeder:
            dims.append(("load%d" % j, LOAD_KINDS))
            dims.append(("jins%d" % j, [True, False]))
        dims.append(("h%d" % j, [12.0, 32.0]))   # the base network lies on a plateau (12 m), one junction at a time is raised
    dims.append(("feeder", FEEDER_KINDS))
    dims.append(("tgrad", [0.0, 9.0]))  # junction start temperatures uniform / graded along the index
    if with_labels:
        dims.append(("labels", LABEL_KINDS))
    if with_config:
        dims.append(("friction", FRICTION))
        dims.append(("numba", [False, True]))
        dims.append(("method", ["constant", "automatic"]))
        dims.append(("alpha", [1.0, 0.5]))    # constant damping factor of the Newton step
        if fluid != "water":
            dims.append(("fluid", [fluid, "hydrogen"]))
    return dims


def h_cases(N, E, d, fluids=("water", "lgas"), feeders="all", with_config=True, with_labels=True, nmin=2,
            edge_only_above=None):
    """Every (skeleton, feeder, fluid) base with every point of the deviation space within d."""
    out = []
    for n, edges in enum.skeletons(N, E, nmin):
        fl = range(n) if feeders == "all" else [f for f in feeders if f < n]
        for feeder in fl:
            for fluid in fluids:
                dims = h_dims(n, edges, feeder, fluid, with_config, with_labels)
                dd = d
                for point, dev in enum.deviations(dims, dd):
                    if edge_only_above is not None and n > edge_only_above and any(
                            not nm.startswith("e") for nm, _ in dev):
                        continue
                    out.append({"scope": "H", "n": n, "edges": [list(e) for e in edges], "feeder": feeder,
                                "fluid": point.get("fluid", fluid), "point": point,
                                "dev": [list(x) for x in dev]})
    return out


def h_spec(case):
    n, edges, feeder, fluid, pt = case["n"], case["edges"], case["feeder"], case["fluid"], case["point"]
    gas = fluid != "water"
    m0 = 0.006 if gas else 0.3
    p0 = 5.0
    lab = labels(pt.get("labels", "range"), n)
    ops = []
    heights = [pt.get("h%d" % j, 12.0) for j in range(n)]
    for ei, (a, b) in enumerate(edges):
        if pt["e%d" % ei] == "pipe_h":
            heights[b] = heights[b] + 15.0
    for j in range(n):
        ops.append({"op": "junction", "id": "j%d" % j, "index": lab[j], "pn_bar": p0, "tfluid_k": 300.0 + pt.get("tgrad", 0.0) * j,
                    "height_m": heights[j], "in_service": pt.get("jins%d" % j, True)})
    fk = pt.get("feeder", "one")
    tg = pt.get("tgrad", 0.0)
    tf, tf1 = 300.0 + tg * feeder, 300.0 + tg * ((feeder + 1) % n)   # feed temperature = start temperature of the junction
    ops.append({"op": "ext_grid", "id": "eg0", "junction": "j%d" % feeder, "p_bar": p0, "t_k": tf,
                "type": "p" if fk == "type_p" else "pt"})
    if fk == "two_same":
        late_eg = {"op": "ext_grid", "id": "eg1", "junction": "j%d" % feeder, "p_bar": p0 + 0.4, "t_k": tf}
    elif fk == "second_other":
        ops.append({"op": "ext_grid", "id": "eg1", "junction": "j%d" % ((feeder + 1) % n), "p_bar": p0 - 0.2,
                    "t_k": tf1})
    elif fk == "three_interleaved":
        # two grids on the feeder junction separated in the table by a grid on another junction
        ops.append({"op": "ext_grid", "id": "eg1", "junction": "j%d" % ((feeder + 1) % n), "p_bar": p0 - 0.2,
                    "t_k": tf1})
        ops.append({"op": "ext_grid", "id": "eg2", "junction": "j%d" % feeder, "p_bar": p0 + 0.4, "t_k": tf})
    elif fk == "two_one_oos":
        ops.append({"op": "ext_grid", "id": "eg1", "junction": "j%d" % feeder, "p_bar": p0 + 0.4, "t_k": tf,
                    "in_service": False})
    late_ops = []
    int_flags = []
    for j in range(n):
        if j == feeder:
            continue
        lk = pt.get("load%d" % j, "sink")
        m = m0 * (1 + 0.37 * j)
        jid = "j%d" % j
        if lk == "sink":
            ops.append({"op": "sink", "id": "ld%d" % j, "junction": jid, "mdot": m})
        elif lk == "source":
            ops.append({"op": "source", "id": "ld%d" % j, "junction": jid, "mdot": m * 0.5})
        elif lk == "storage_pos":
            ops.append({"op": "mass_storage", "id": "ld%d" % j, "junction": jid, "mdot": m})
        elif lk == "storage_neg":
            ops.append({"op": "mass_storage", "id": "ld%d" % j, "junction": jid, "mdot": -m * 0.5})
        elif lk == "two_sinks":
            ops.append({"op": "sink", "id": "ld%d" % j, "junction": jid, "mdot": m, "scaling": 0.5})
            # the second sink of the junction is created after all other loads: non-adjacent duplicate rows
            late_ops.append({"op": "sink", "id": "ld%db" % j, "junction": jid, "mdot": m * 0.4, "scaling": 1.5})
        elif lk == "sink_oos":
            ops.append({"op": "sink", "id": "ld%d" % j, "junction": jid, "mdot": m, "in_service": False})
        elif lk == "sink_oos_int":
            # switched-off sink plus a second sink, the status column holds 0 / 1 instead of False / True
            ops.append({"op": "sink", "id": "ld%d" % j, "junction": jid, "mdot": m, "in_service": False})
            late_ops.append({"op": "sink", "id": "ld%dc" % j, "junction": jid, "mdot": m * 0.3})
            int_flags.append(("sink", "in_service"))
        elif lk == "nan":
            ops.append({"op": "sink", "id": "ld%d" % j, "junction": jid, "mdot": float("nan")})
    ops.extend(late_ops)
    if fk == "two_same":
        ops.append(late_eg)
    for ei, (a, b) in enumerate(edges):
        k = pt["e%d" % ei]
        eid = "b%d" % ei
        ja, jb = "j%d" % a, "j%d" % b
        if k.startswith("pipe"):
            fa, fb = (jb, ja) if k == "pipe_rev" else (ja, jb)
            ops.append({"op": "pipe", "id": eid, "from": fa, "to": fb, "length_km": 0.3, "d_mm": 50.0, "k_mm": 0.1,
                        "sections": 3 if k == "pipe3" else 1, "zeta": 2.5 if k == "pipe_zeta" else 0.0,
                        "in_service": k != "pipe_oos"})
            if "vpi" in k:
                ops.append({"op": "valve", "id": eid + "v", "et": "pi", "from": fa, "pipe": eid,
                            "opened": "closed" not in k})
                if k == "pipe_vpi2":
                    # second valve at the other end of the pipe (two valves at the same end are parallel zero-resistance
                    # branches: the flow split is undetermined and the solver never returns)
                    ops.append({"op": "valve", "id": eid + "w", "et": "pi", "from": fb, "pipe": eid, "opened": True})
        elif k.startswith("valve"):
            ops.append({"op": "valve", "id": eid, "from": ja, "to": jb, "opened": k == "valve"})
        elif k == "pump":
            ops.append({"op": "pump", "id": eid, "from": ja, "to": jb, "std_type": "P1"})
        elif k == "compressor":
            ops.append({"op": "compressor", "id": eid, "from": ja, "to": jb, "ratio": 1.2})
        elif k.startswith("fc"):
            ops.append({"op": "flow_control", "id": eid, "from": ja, "to": jb, "mdot": m0 * 0.5,
                        "control_active": k == "fc"})
        elif k.startswith("pc"):
            ops.append({"op": "press_control", "id": eid, "from": ja, "to": jb, "controlled": jb, "p_bar": 4.5,
                        "control_active": k == "pc", "check_controllability": False})
        elif k == "hex":
            ops.append({"op": "heat_exchanger", "id": eid, "from": ja, "to": jb, "qext_w": 1000.0})
        else:
            raise KeyError(k)
    opts = {"friction_model": pt.get("friction", "nikuradse"), "use_numba": pt.get("numba", False),
            "nonlinear_method": pt.get("method", "constant")}
    if pt.get("alpha", 1.0) != 1.0:
        opts["alpha"] = pt["alpha"]
    sp = {"fluid": fluid, "ops": ops}
    if int_flags:
        sp["int_flags"] = int_flags
    return sp, opts
