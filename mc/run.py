"""Entry point:  /venv/bin/python -m mc.run C01 --tier quick|thorough [--replay file]"""
import os
import sys
import argparse
import importlib


def main():
    ap = argparse.ArgumentParser()
    ap.add_argument("pid")
    ap.add_argument("--tier", default=os.environ.get("VERIF_TIER", "quick"), choices=["quick", "thorough"])
    ap.add_argument("--replay", default=None)
    a = ap.parse_args()
    # pin hash randomisation: re-exec once with PYTHONHASHSEED=0 (checks that explore hash seeds
    # spawn their own subprocesses)
    if os.environ.get("PYTHONHASHSEED") != "0":
        env = dict(os.environ, PYTHONHASHSEED="0")
        os.execve(sys.executable, [sys.executable, "-m", "mc.run"] + sys.argv[1:], env)
    from mc import core
    try:
        mod = importlib.import_module("mc.checks.%s" % a.pid.lower())
    except Exception:
        import traceback
        traceback.print_exc()
        print("HARNESS-ERROR: cannot import check %s" % a.pid)
        sys.exit(2)
    rc = core.run_check(mod, a.tier, a.replay)
    sys.stdout.flush()
    sys.exit(rc)


if __name__ == "__main__":
    main()
