"""Shared runner machinery: environment pinning, deterministic parallel map, violation classes,
known findings, replay files and evidence files.

Every check module in mc.checks exposes

    ID, LEVEL, RULE, ASSUMPTIONS
    cases(tier)              -> list of JSON-able case dicts (the *complete* enumerated space)
    run_case(case)           -> dict(status=str, sig=str|None, nontrivial=bool, violations=[...],
                                     states=[hash...], transitions=int, traces=int, info={...})
    optional: warmup(), finish(ctx, results) -> dict of extra coverage keys / extra violations,
              MIN_OK_FRACTION (coverage floor), EXHAUSTIVE_NOTE

A violation is dict(clause=str, tags=dict, detail=str).  Its *class* is (clause, sorted tags).
"""
import os
import sys
import json
import time
import hashlib
import random
import traceback
import collections
import multiprocessing as mp

VERIF_DIR = os.path.dirname(os.path.dirname(os.path.abspath(__file__)))
REPO_SRC = os.environ.get("VERIF_REPO_SRC", "/repo/src")
if REPO_SRC not in sys.path:
    sys.path.insert(0, REPO_SRC)

os.environ.setdefault("PANDAPIPES_VERIF", "1")
os.environ.setdefault("OMP_NUM_THREADS", "1")
os.environ.setdefault("OPENBLAS_NUM_THREADS", "1")
os.environ.setdefault("MKL_NUM_THREADS", "1")
os.environ.setdefault("NUMBA_NUM_THREADS", "1")

import warnings  # noqa: E402
import logging  # noqa: E402

warnings.filterwarnings("ignore")
logging.disable(logging.CRITICAL)

NPROC = int(os.environ.get("VERIF_NPROC", "16"))
SEED = int(os.environ.get("VERIF_SEED", "0"))


def jhash(obj):
    return hashlib.sha1(json.dumps(obj, sort_keys=True, default=str).encode()).hexdigest()[:16]


def viol(clause, detail, **tags):
    return {"clause": clause, "tags": {k: tags[k] for k in sorted(tags)}, "detail": str(detail)[:600]}


def vclass(v):
    return v["clause"] + "|" + ",".join("%s=%s" % kv for kv in sorted(v["tags"].items()))


# --------------------------------------------------------------------------------------------------
# known findings
# --------------------------------------------------------------------------------------------------
def load_findings(pid):
    path = os.path.join(VERIF_DIR, "known_findings.json")
    if not os.path.exists(path):
        return []
    with open(path) as f:
        data = json.load(f)
    return [e for e in data.get("findings", []) if e.get("property") == pid]


def match_finding(v, findings):
    """A 'known' entry matches when the clause is equal and every key of its match dict equals the
    violation's tag.  'fixed' entries never match (they suppress nothing)."""
    for e in findings:
        if e.get("status") != "known":
            continue
        if e.get("clause") != v["clause"]:
            continue
        m = e.get("match", {})
        if all(str(v["tags"].get(k)) == str(val) for k, val in m.items()):
            return e
    return None


# --------------------------------------------------------------------------------------------------
# parallel map (fork, deterministic split)
# --------------------------------------------------------------------------------------------------
_MOD = None


def _worker(args):
    i, case = args
    t0 = time.time()
    try:
        r = _MOD.run_case(case)
    except Exception as e:  # harness error inside a case: reported, never silently dropped
        r = {"status": "HARNESS_ERROR", "violations": [],
             "error": "%s: %s\n%s" % (type(e).__name__, e, traceback.format_exc()[-1500:])}
    r["_i"] = i
    r["_t"] = time.time() - t0
    return r


def pmap(mod, cases, nproc=None, chunksize=None):
    global _MOD
    _MOD = mod
    # pool start-up costs ~1 s per worker on this machine: size the pool by the amount of work
    weight = getattr(mod, "CASE_WEIGHT", 1)
    nproc = min(nproc or NPROC, 1 + len(cases) * weight // 120)
    items = list(enumerate(cases))
    # VERIF_SEED only permutes processing order
    random.Random(SEED).shuffle(items)
    if nproc <= 1 or len(items) < 4:
        out = [_worker(it) for it in items]
    else:
        ctx = mp.get_context("fork")
        cs = chunksize or max(1, min(64, len(items) // (nproc * 8) or 1))
        with ctx.Pool(nproc) as pool:
            out = pool.map(_worker, items, chunksize=cs)
    out.sort(key=lambda r: r["_i"])
    return out


# --------------------------------------------------------------------------------------------------
# main driver for one check
# --------------------------------------------------------------------------------------------------
def write_replay(pid, case, v):
    d = os.path.join(VERIF_DIR, "replays", pid)
    os.makedirs(d, exist_ok=True)
    path = os.path.join(d, jhash([vclass(v), case]) + ".json")
    with open(path, "w") as f:
        json.dump({"property": pid, "case": case, "violation": v}, f, indent=1, default=str)
    return path


def run_check(mod, tier, replay=None):
    pid = mod.ID
    t0 = time.time()
    if hasattr(mod, "warmup"):
        mod.warmup()
    if replay:
        with open(replay) as f:
            rp = json.load(f)
        case = rp["case"]
        r = mod.run_case(case)
        print("replay status=%s" % r.get("status"))
        findings = load_findings(pid)
        bad = 0
        for v in r.get("violations", []):
            kf = match_finding(v, findings)
            if kf:
                print("KNOWN-FINDING: property=%s %s" % (pid, kf["what"]))
            else:
                bad += 1
                print("VIOLATION property=%s replay=%s" % (pid, replay))
                print("  clause=%s tags=%s\n  %s" % (v["clause"], v["tags"], v["detail"]))
        return 1 if bad else 0

    cases = mod.cases(tier)
    ncases = len(cases)
    results = pmap(mod, cases, getattr(mod, "NPROC", None))

    # determinism self-test: re-run a slice in this process / another pool and compare
    ndet = min(getattr(mod, "DETERMINISM_SLICE", 6), ncases)
    det_idx = sorted(random.Random(SEED + 1).sample(range(ncases), ndet)) if ndet else []
    det_bad = []
    for i in det_idx:
        r2 = _worker((i, cases[i]))
        r1 = results[i]
        k1 = (r1.get("status"), r1.get("sig"), sorted(vclass(v) for v in r1.get("violations", [])))
        k2 = (r2.get("status"), r2.get("sig"), sorted(vclass(v) for v in r2.get("violations", [])))
        if k1 != k2:
            det_bad.append((i, k1, k2))

    status = collections.Counter()
    sigs = set()
    states = set()
    transitions = 0
    traces = 0
    info = collections.Counter()
    vio_classes = collections.OrderedDict()
    harness_errors = []
    for i, r in enumerate(results):
        status[r.get("status", "?")] += 1
        if r.get("status") == "HARNESS_ERROR":
            harness_errors.append((i, r.get("error")))
        if r.get("nontrivial") and r.get("sig") is not None:
            sigs.add(r["sig"])
        for s in r.get("states", []) or []:
            states.add(s)
        transitions += int(r.get("transitions", 0) or 0)
        traces += int(r.get("traces", 0) or 0)
        for k, v in (r.get("info") or {}).items():
            info[k] += v
        for v in r.get("violations", []):
            c = vclass(v)
            if c not in vio_classes:
                vio_classes[c] = {"v": v, "case": cases[i], "count": 0}
            vio_classes[c]["count"] += 1

    extra = {}
    if hasattr(mod, "finish"):
        extra = mod.finish(tier, cases, results) or {}
        for v, case in extra.pop("violations", []):
            c = vclass(v)
            if c not in vio_classes:
                vio_classes[c] = {"v": v, "case": case, "count": 0}
            vio_classes[c]["count"] += 1
        for s in extra.pop("states", []):
            states.add(s)
        transitions += extra.pop("transitions", 0)
        traces += extra.pop("traces", 0)

    findings = load_findings(pid)
    known_lines = collections.OrderedDict()
    new = []
    for c, d in vio_classes.items():
        kf = match_finding(d["v"], findings)
        if kf:
            known_lines.setdefault(kf["what"], 0)
            known_lines[kf["what"]] += d["count"]
        else:
            new.append(d)

    for what, n in known_lines.items():
        print("KNOWN-FINDING: property=%s %s (matched %d cases)" % (pid, what, n))
    nviol = sum(d["count"] for d in new)
    nshow = int(os.environ.get('VERIF_SHOW', '20'))
    for d in new[:nshow]:
        path = write_replay(pid, d["case"], d["v"])
        print("VIOLATION property=%s replay=%s" % (pid, path))
        print("  clause=%s tags=%s count=%d\n  %s" % (d["v"]["clause"], d["v"]["tags"], d["count"],
                                                     d["v"]["detail"]))
    if len(new) > nshow:
        print("  ... %d more violation classes" % (len(new) - nshow))

    ok_frac = None
    floor = getattr(mod, "MIN_OK_FRACTION", None)
    n_ok = sum(n for s, n in status.items() if s.startswith("ok"))
    if ncases:
        ok_frac = n_ok / ncases

    rng = random.Random(SEED + 2)
    nsamp = min(3, ncases)
    samples = [cases[i] for i in sorted(rng.sample(range(ncases), nsamp))] if nsamp else []

    coverage = {
        "evaluations": ncases,
        "distinct_nontrivial": len(sigs),
        "rule": mod.RULE,
        "samples": samples,
        "exhaustive": True,
        "status_counts": dict(status),
        "info": dict(info),
        "violation_classes": len(vio_classes),
        "known_finding_cases": sum(known_lines.values()),
        "determinism_recheck": {"cases": len(det_idx), "diverged": len(det_bad)},
        "ok_fraction": ok_frac,
    }
    if mod.LEVEL == "model_checking":
        coverage["states"] = len(states)
        coverage["transitions"] = transitions
        coverage["traces_validated_against_impl"] = traces
    coverage.update(extra)
    ev = {
        "property_id": pid, "tier": tier, "seed": SEED, "level": mod.LEVEL,
        "coverage": coverage, "assumptions": list(mod.ASSUMPTIONS),
        "wall_s": round(time.time() - t0, 2), "violations": nviol,
    }
    evdir = os.environ.get("VERIF_EVIDENCE_DIR", os.path.join(VERIF_DIR, "evidence"))
    os.makedirs(evdir, exist_ok=True)
    with open(os.path.join(evdir, pid + ".json"), "w") as f:
        json.dump(ev, f, indent=1, default=str)

    print("%s tier=%s cases=%d distinct_nontrivial=%d states=%d transitions=%d status=%s wall=%.1fs" % (
        pid, tier, ncases, len(sigs), len(states), transitions, dict(status.most_common(8)),
        time.time() - t0))
    if harness_errors:
        print("HARNESS-ERROR in %d cases; first: case=%s\n%s" % (
            len(harness_errors), json.dumps(cases[harness_errors[0][0]], default=str)[:400],
            harness_errors[0][1]))
        return 2
    if det_bad:
        print("HARNESS-ERROR: nondeterministic observation for case %s: %s vs %s" % det_bad[0])
        return 2
    if new:
        return 1
    if floor is not None and ok_frac is not None and ok_frac < floor:
        print("INCONCLUSIVE: only %.1f%% of the cases returned a solution (floor %.0f%%)" % (
            100 * ok_frac, 100 * floor))
        return 3
    return 0
