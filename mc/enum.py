"""Enumerators: topology skeletons up to isomorphism, deviation-bounded products, flag lattices."""
import itertools
import functools


def _canon(n, edges):
    best = None
    for perm in itertools.permutations(range(n)):
        key = tuple(sorted(tuple(sorted((perm[a], perm[b]))) for a, b in edges))
        if best is None or key < best:
            best = key
    return best


def _connected(n, edges):
    adj = {i: set() for i in range(n)}
    for a, b in edges:
        adj[a].add(b)
        adj[b].add(a)
    seen = {0}
    stack = [0]
    while stack:
        x = stack.pop()
        for y in adj[x]:
            if y not in seen:
                seen.add(y)
                stack.append(y)
    return len(seen) == n


@functools.lru_cache(maxsize=None)
def skeletons(N, E, nmin=2):
    """All connected loop-free multigraphs with nmin..N nodes and <=E edges up to isomorphism.
    Returned as a sorted list of (n, edges) with edges a tuple of (a, b), a < b (canonical form)."""
    out = {}
    for n in range(nmin, N + 1):
        pairs = list(itertools.combinations(range(n), 2))
        for e in range(n - 1, E + 1):
            for combo in itertools.combinations_with_replacement(pairs, e):
                if not _connected(n, combo):
                    continue
                c = _canon(n, combo)
                out[(n, c)] = (n, c)
    return sorted(out.values())


def deviations(dims, d):
    """dims: list of (name, [default, alt1, alt2, ...]).  Yields every assignment (dict name->value)
    differing from the default in at most d dimensions, ordered by number of deviations (0, 1, 2..)."""
    names = [n for n, _ in dims]
    base = {n: dom[0] for n, dom in dims}
    yield dict(base), ()
    for k in range(1, d + 1):
        for combo in itertools.combinations(range(len(dims)), k):
            alts = [range(1, len(dims[i][1])) for i in combo]
            for choice in itertools.product(*alts):
                p = dict(base)
                for i, c in zip(combo, choice):
                    p[names[i]] = dims[i][1][c]
                yield p, tuple((names[i], c) for i, c in zip(combo, choice))


def lattice(k):
    return itertools.product([True, False], repeat=k)
