"""setup_cmd: verifies that the framework can run offline from files on disk (imports, tools, schemas)."""
import os, sys, json, shutil, subprocess
from mc import core


def main():
    import numpy, scipy, pandas, networkx, jsonschema, numba  # noqa
    import pandapipes, pandapower  # noqa
    assert os.path.realpath(pandapipes.__file__).startswith(os.path.realpath(core.REPO_SRC)), pandapipes.__file__
    for tool in ("tlc", "java"):
        if shutil.which(tool) is None:
            print("missing tool", tool)
            sys.exit(2)
    man = json.load(open(os.path.join(core.VERIF_DIR, "MANIFEST.json")))
    jsonschema.validate(man, json.load(open("/root/.vp/MANIFEST.schema.json"))) if os.path.exists(
        "/root/.vp/MANIFEST.schema.json") else None
    os.makedirs(os.path.join(core.VERIF_DIR, "evidence"), exist_ok=True)
    print("selftest ok: pandapipes from", os.path.dirname(pandapipes.__file__))


if __name__ == "__main__":
    main()
