"""C07 - numba and numpy engines and the matrix-update option give the same answer.
(a) twin kernels on the full product of per-column input alphabets; (b) scope H / T with use_numba on vs off;
(c) BFS over call histories with only_update_hydraulic_matrix / reuse_internal_data interleaved with load edits,
each state compared with a fresh calculation without reuse."""
import copy
import itertools
import numpy as np
from mc import core, spec, scopes, enum
from mc.core import viol
from mc.checks import c10, c01
import pandapipes as pp
from pandapipes import idx_branch as IB, idx_node as IN
from pandapipes.pf import derivative_toolbox as NP, derivative_toolbox_numba as NB, internals_toolbox as IT

ID = "C07"
LEVEL = "model_checking"
RULE = ("(a) every twin kernel pair (hydraulic incompressible / compressible residuals, thermal residuals, Nikuradse "
        "friction, mean pressure, derived values, grouped sums) is called on arrays whose rows are the FULL product of "
        "per-column alphabets (mass flow incl. 0, +-tiny, +-0.3, NaN; equal / nearly equal / different end pressures; "
        "zero and non-zero length; heights; loss coefficient; temperatures; switched flag; shared nodes; small and large "
        "index values); (b) scope H d<=1 (+ scope T, loops) solved with numba on and off; (c) states = call histories "
        "(depth<=3/4) of pipeflow with the four only_update/reuse combinations x numba interleaved with load/set-point "
        "edits, every state compared with a fresh net solved without reuse. transitions = kernel rows + pipeflow calls.")
ASSUMPTIONS = ["outputs that define the solution (residuals, node loads, infeed set, friction factors, mean pressure, derived "
               "values, sums) must agree to 1e-12 relative; Jacobian entries are compared and reported as informational only, "
               "because the statement is about results",
               "structure-changing edits are only explored with reuse_internal_data=False (statement: loads are changed)"]
DETERMINISM_SLICE = 3


def warmup():
    spec.warmup_numba()


# --------------------------------------------------------------------------------------------------
# (a) twin kernels
# --------------------------------------------------------------------------------------------------
def agree(a, b, rtol=1e-12, atol=0.0):
    a = np.asarray(a, dtype=float)
    b = np.asarray(b, dtype=float)
    if a.shape != b.shape:
        return False, "shape %s vs %s" % (a.shape, b.shape)
    both_nan = np.isnan(a) & np.isnan(b)
    with np.errstate(invalid="ignore"):
        close = np.abs(a - b) <= atol + rtol * np.maximum(np.abs(a), np.abs(b))
        same_inf = np.isinf(a) & np.isinf(b) & (np.sign(a) == np.sign(b))
    ok = both_nan | close | same_inf
    if ok.all():
        return True, ""
    i = int(np.flatnonzero(~ok.ravel())[0])
    return False, "row %d: numpy %r numba %r (%d rows differ)" % (i, a.ravel()[i], b.ravel()[i], int((~ok).sum()))


def hyd_rows(gas):
    mdots = [0.0, 1e-12, -1e-12, 1e-9, -1e-9, 0.3, -0.3, np.nan]
    pres = [(6.0, 6.0), (6.0, 5.9), (5.9, 6.0), (6.0, 6.0 - 1e-9), (6.0 + 3e-5, 6.0)]
    lengths = [0.0, 100.0]
    heights = [0.0, 12.0, -7.0]
    zetas = [0.0, 2.5]
    lams = [0.02, 0.05]
    rows = list(itertools.product(mdots, pres, lengths, heights, zetas, lams))
    n = len(rows)
    bp = np.zeros((n, IB.branch_cols))
    der_lambda = np.zeros(n)
    pi = np.zeros(n)
    pi1 = np.zeros(n)
    hd = np.zeros(n)
    for r, (m, (pa, pb), L, h, z, lam) in enumerate(rows):
        bp[r, IB.MDOTINIT] = m
        bp[r, IB.LENGTH] = L
        bp[r, IB.LAMBDA] = lam
        bp[r, IB.D] = 0.05 + 0.01 * (r % 3)
        bp[r, IB.AREA] = bp[r, IB.D] ** 2 * np.pi / 4
        bp[r, IB.LOSS_COEFFICIENT] = z
        bp[r, IB.PL] = 0.1 * (r % 2)
        bp[r, IB.TOUTINIT] = 300.0 + (r % 5)
        bp[r, IB.FROM_NODE] = r % 7
        der_lambda[r] = -1e-3 * (1 + r % 4)
        pi[r], pi1[r], hd[r] = pa, pb, h
    return bp, der_lambda, pi, pi1, hd


def kernel_case(name):
    vs = []
    info = {}
    rows = 0

    def check(label, outs_np, outs_nb, names, defining, rtol=1e-12):
        for nm, a, b in zip(names, outs_np, outs_nb):
            ok, msg = agree(a, b, rtol)
            if ok:
                continue
            if nm in defining:
                vs.append(viol("twin_kernel_differs", "%s output %s: %s" % (label, nm, msg), kernel=label, output=nm))
            else:
                info["informational_jacobian_difference_%s_%s" % (label, nm)] = 1
    if name == "hyd_incomp":
        bp, dl, pi, pi1, hd = hyd_rows(False)
        rho = np.full(len(bp), 998.0) - np.arange(len(bp)) % 9
        a = NP.derivatives_hydraulic_incomp_np(bp.copy(), dl, pi, pi1, hd, rho)
        b = NB.derivatives_hydraulic_incomp_numba(bp.copy(), dl, pi, pi1, hd, rho)
        names = ["load_vec", "load_vec_nodes_from", "load_vec_nodes_to", "df_dm", "df_dm_nodes", "df_dp", "df_dp1", "dp_frict_loss"]
        check(name, a, b, names, {"load_vec", "load_vec_nodes_from", "load_vec_nodes_to", "dp_frict_loss"})
        rows = len(bp)
    elif name == "hyd_comp":
        bp, dl, pi, pi1, hd = hyd_rows(True)
        n = len(bp)
        npit = np.zeros((7, IN.node_cols))
        npit[:, IN.TINIT] = 280.0 + 5 * np.arange(7)
        lam = bp[:, IB.LAMBDA].copy()
        comp = 1.0 - 0.002 * (pi + pi1) / 2
        dc = np.full(n, -0.002 * 0.5)
        rho = 4.0 + 0.1 * (np.arange(n) % 5)
        rho_n = np.full(n, 0.8)
        a = NP.derivatives_hydraulic_comp_np(npit.copy(), bp.copy(), lam, dl, pi, pi1, hd, comp, dc, dc * 1.1, rho, rho_n)
        b = NB.derivatives_hydraulic_comp_numba(npit.copy(), bp.copy(), lam, dl, pi, pi1, hd, comp, dc, dc * 1.1, rho, rho_n)
        names = ["load_vec", "load_vec_nodes_from", "load_vec_nodes_to", "df_dm", "df_dm_nodes", "df_dp", "df_dp1", "dp_frict_loss"]
        check(name, a, b, names, {"load_vec", "load_vec_nodes_from", "load_vec_nodes_to", "dp_frict_loss"})
        rows = n
    elif name == "lambda":
        ms = [0.0, 1e-12, -1e-9, 1e-5, 0.3, -0.3, np.nan]
        ds = [0.02, 0.1]
        ks = [1e-5, 1e-3]
        etas = [1e-3, 1.1e-5]
        prod = list(itertools.product(ms, ds, ks, etas))
        m = np.array([p[0] for p in prod])
        d = np.array([p[1] for p in prod])
        k = np.array([p[2] for p in prod])
        eta = np.array([p[3] for p in prod])
        area = d ** 2 * np.pi / 4
        for lab, f1, f2 in (("lambda_incomp", NP.calc_lambda_nikuradse_incomp_np, NB.calc_lambda_nikuradse_incomp_numba),
                            ("lambda_comp", NP.calc_lambda_nikuradse_comp_np, NB.calc_lambda_nikuradse_comp_numba)):
            a = f1(m.copy(), d, k, eta, area)
            b = f2(m.copy(), d, k, eta, area)
            # rows with NaN mass flow: laminar part must be NaN or 0 in both (no flow information) -> mask them
            mask = ~np.isnan(m)
            check(lab, [x[mask] for x in a], [x[mask] for x in b], ["re", "lambda_laminar", "lambda_nikuradse"],
                  {"re", "lambda_laminar", "lambda_nikuradse"})
            # laminar part below the numba cut-off (|Re|<=1e-8): numpy uses isclose(re, 0) - both give 0 for re==0
        rows = 2 * len(prod)
    elif name == "medium_pressure":
        ps = [1.0, 6.0, 6.0 + 1e-9, 6.0 + 1e-5, 5.9, 80.0]
        prod = list(itertools.product(ps, ps))
        pa = np.array([p[0] for p in prod])
        pb = np.array([p[1] for p in prod])
        a = NP.calc_medium_pressure_with_derivative_np(pa.copy(), pb.copy())
        b = NB.calc_medium_pressure_with_derivative_numba(pa.copy(), pb.copy())
        # condition-scaled tolerance for nearly equal pressures: p_m = 2/3 (pa^3-pb^3)/(pa^2-pb^2)
        cond = np.where(pa != pb, np.maximum(pa, pb) / np.maximum(np.abs(pa - pb), 1e-300), 1.0)
        ok, msg = agree(a[0], b[0], 1e-12)
        if not ok:
            bad = np.abs(a[0] - b[0]) > 4e-16 * cond * np.maximum(np.abs(a[0]), 1)
            if bad.any():
                vs.append(viol("twin_kernel_differs", "medium pressure: %s" % msg, kernel=name, output="p_m"))
        check(name, a[1:], b[1:], ["der_p_m", "der_p_m1"], set())
        rows = len(prod)
    elif name == "derived_values":
        npit = np.zeros((5, IN.node_cols))
        npit[:, IN.TINIT] = [280, 300, 320, 350, np.nan]
        npit[:, IN.HEIGHT] = [0, 10, -5, 100, 3]
        npit[:, IN.PINIT] = [5, 4.9, 5.1, 1, 16]
        npit[:, IN.PAMB] = [1.01, 1.0, 1.02, 0.9, 1.01]
        prod = list(itertools.product(range(5), range(5)))
        fn = np.array([p[0] for p in prod], dtype=np.int32)
        tn = np.array([p[1] for p in prod], dtype=np.int32)
        a = NP.calc_derived_values_np(npit, fn, tn)
        b = NB.calc_derived_values_numba(npit, fn, tn)
        check(name, a, b, ["tinit_branch", "height_difference", "p_init_i_abs", "p_init_i1_abs"],
              {"tinit_branch", "height_difference", "p_init_i_abs", "p_init_i1_abs"})
        rows = len(prod)
    elif name == "sum_by_group":
        for idx_set in ([0, 1, 2, 3], [3, 1, 3, 0, 1, 3], [7, 7, 7], [100000, 5, 100000, 7, 5], [250001, 3, 20, 11, 3, 250001],
                        [40, 2, 40, 39, 2], [0], [5, 4, 3, 2, 1, 0, 5, 4]):
            for dt in (np.int64, np.int32, np.float64):
                ind = np.array(idx_set, dtype=dt)
                v1 = np.arange(len(ind), dtype=np.float64) * 1.5 + 0.25
                v2 = np.ones(len(ind), dtype=np.int32)
                v3 = v1 * -2
                a = IT._sum_by_group_np(ind.copy(), v1.copy(), v2.copy(), v3.copy())
                b = IT._sum_by_group(True, ind.copy(), v1.copy(), v2.copy(), v3.copy())
                check("sum_by_group", a, b, ["index", "sum1", "sum2", "sum3"], {"index", "sum1", "sum2", "sum3"})
                # independent reference
                uniq = sorted(set(idx_set))
                ref = [sum(v1[i] for i, x in enumerate(idx_set) if x == u) for u in uniq]
                for lab, got in (("np", a), ("numba", b)):
                    if list(np.asarray(got[0], dtype=float)) != [float(u) for u in uniq] or not np.allclose(got[1], ref, rtol=1e-13):
                        vs.append(viol("sum_by_group_wrong", "%s engine: indices %s -> groups %s sums %s, reference %s %s" % (
                            lab, idx_set, list(got[0]), list(got[1]), uniq, ref), engine=lab))
                rows += len(ind)
    elif name == "thermal":
        rows, v2, inf2 = thermal_kernel(vs)
        info.update(inf2)
    return vs, rows, info


def thermal_kernel(vs):
    """full product over per-branch alphabets on a small node/branch structure with shared nodes"""
    mdots = [0.0, 1e-9, 0.3, -0.3]  # both twins agree that 0 is 'no flow' and 1e-9 kg/s is flow (cut-offs 1e-10 / 0)
    lengths = [0.0, 150.0]
    alphas = [0.0, 12.0]
    qexts = [0.0, 5000.0]
    tls = [0.0]
    touts = [310.0, 345.0]
    prod = list(itertools.product(mdots, lengths, alphas, qexts, tls, touts))
    nb = len(prod)
    nn = 9
    bp = np.zeros((nb, IB.branch_cols))
    npit = np.zeros((nn, IN.node_cols))
    npit[:, IN.TINIT] = 300.0 + 7.0 * np.arange(nn)
    for r, (m, L, al, q, tl, to) in enumerate(prod):
        bp[r, IB.MDOTINIT] = m
        bp[r, IB.LENGTH] = L
        bp[r, IB.ALPHA] = al
        bp[r, IB.QEXT] = q if L == 0 else 0.0
        bp[r, IB.TL] = tl
        bp[r, IB.TOUTINIT] = to
        bp[r, IB.TEXT] = 283.0 + (r % 3)
        bp[r, IB.D] = 0.05
        bp[r, IB.DO] = 0.05 + 0.02 * (r % 2)
        bp[r, IB.AREA] = 0.05 ** 2 * np.pi / 4
        if m == 0.0:
            # branches without flow hang on nodes 5..8; nodes 7 and 8 see no flowing branch at all (stagnant nodes)
            bp[r, IB.FROM_NODE] = 5 + r % 4
            bp[r, IB.TO_NODE] = 7 + (r // 4) % 2
        else:
            bp[r, IB.FROM_NODE] = r % 7
            bp[r, IB.TO_NODE] = (r * 5 + 3) % 7
        if bp[r, IB.FROM_NODE] == bp[r, IB.TO_NODE]:
            bp[r, IB.TO_NODE] = (bp[r, IB.TO_NODE] + 1) % (9 if m == 0.0 else 7)
        bp[r, IB.FROM_NODE_T_SWITCHED] = m < -2e-11
    from pandapipes.pf.internals_toolbox import get_from_nodes_corrected, get_to_nodes_corrected
    fn = get_from_nodes_corrected(bp)
    tn = get_to_nodes_corrected(bp)
    t_i = npit[fn, IN.TINIT]
    t_i1 = bp[:, IB.TOUTINIT].copy()
    t_nt = npit[tn, IN.TINIT]
    t_n = npit[:, IN.TINIT].copy()
    cp_n = np.full(nb, 4185.0) + np.arange(nb) % 4
    cp_b = np.full(nb, 4190.0) - np.arange(nb) % 3
    rho = np.full(nb, 990.0)
    old_n = npit[:, [IN.TINIT]].copy()
    old_b = bp[:, [IB.TOUTINIT]].copy()
    lk_n = np.full(IN.node_cols, -1, dtype=np.int32)
    lk_n[IN.TINIT] = 0
    lk_b = np.full(IB.branch_cols, -1, dtype=np.int32)
    lk_b[IB.TOUTINIT] = 0
    names = ["fn", "dfn_dt", "fnt", "dfnt_dt", "dfnt_dtout", "fb", "dfb_dt", "dfb_dtout", "infeed"]
    a = NP.derivatives_thermal_np(npit.copy(), bp.copy(), old_n, lk_n, old_b, lk_b, fn, tn, t_i, t_i1, t_nt, t_n, cp_n, cp_b,
                                  rho, None, False, 293.15)
    b = NB.derivatives_thermal_numba(npit.copy(), bp.copy(), old_n, lk_n, old_b, lk_b, fn.astype(np.int32), tn.astype(np.int32),
                                     t_i, t_i1, t_nt, t_n, cp_n, cp_b, rho, None, False, 293.15)
    info = {}
    # the transient branch of the twins: previous-step temperatures differ from the current ones, per-pipe ambient
    # temperatures differ from the ambient option
    old_n2 = old_n + np.arange(nn).reshape(-1, 1) * 0.7
    old_b2 = old_b - (np.arange(nb) % 5).reshape(-1, 1) * 1.3
    at = NP.derivatives_thermal_np(npit.copy(), bp.copy(), old_n2, lk_n, old_b2, lk_b, fn, tn, t_i, t_i1, t_nt, t_n, cp_n, cp_b,
                                   rho, 120.0, True, 293.15)
    bt = NB.derivatives_thermal_numba(npit.copy(), bp.copy(), old_n2, lk_n, old_b2, lk_b, fn.astype(np.int32), tn.astype(np.int32),
                                      t_i, t_i1, t_nt, t_n, cp_n, cp_b, rho, 120.0, True, 293.15)
    for nm, x, y in zip(names, at, bt):
        if nm == "infeed":
            x = np.flatnonzero(x) if np.asarray(x).dtype == bool else np.asarray(x)
            y = np.flatnonzero(y) if np.asarray(y).dtype == bool else np.asarray(y)
            if sorted(np.asarray(x).tolist()) != sorted(np.asarray(y).tolist()):
                vs.append(viol("twin_kernel_differs", "transient thermal infeed set numpy %s numba %s" % (sorted(x), sorted(y)),
                               kernel="thermal_transient", output="infeed"))
            continue
        ok, msg = agree(x, y, 1e-12, atol=1e-12 * float(np.nanmax(np.abs(np.asarray(x, dtype=float)))) if len(x) else 0.0)
        if not ok:
            if nm in ("fn", "fnt", "fb"):
                vs.append(viol("twin_kernel_differs", "transient thermal output %s: %s" % (nm, msg), kernel="thermal_transient", output=nm))
            else:
                info["informational_jacobian_difference_thermal_transient_%s" % nm] = 1
    for nm, x, y in zip(names, a, b):
        if nm == "infeed":
            # one twin returns node indices, the other a boolean node mask: compare as sets of nodes
            x = np.flatnonzero(x) if np.asarray(x).dtype == bool else np.asarray(x)
            y = np.flatnonzero(y) if np.asarray(y).dtype == bool else np.asarray(y)
            if sorted(np.asarray(x).tolist()) != sorted(np.asarray(y).tolist()):
                vs.append(viol("twin_kernel_differs", "thermal infeed set numpy %s numba %s" % (sorted(x), sorted(y)),
                               kernel="thermal", output="infeed"))
            continue
        # the twins use different cut-offs for 'no flow' (1e-10 vs exactly 0 kg/s): residual contributions of flows
        # below the cut-off are compared on the scale of the whole vector
        ok, msg = agree(x, y, 1e-12, atol=1e-12 * float(np.nanmax(np.abs(np.asarray(x, dtype=float)))) if len(x) else 0.0)
        if not ok:
            if nm in ("fn", "fnt", "fb"):
                vs.append(viol("twin_kernel_differs", "thermal output %s: %s" % (nm, msg), kernel="thermal", output=nm))
            else:
                info["informational_jacobian_difference_thermal_%s" % nm] = 1
    return nb, vs, info


# --------------------------------------------------------------------------------------------------
# (c) histories with reused internal data
# --------------------------------------------------------------------------------------------------
def hist_net(fluid):
    gas = fluid != "water"
    m = 0.006 if gas else 0.3
    net = pp.create_empty_network(fluid=fluid)
    j = pp.create_junctions(net, 5, 5, 300)
    pp.create_ext_grid(net, j[0], 5, 300)
    pp.create_pipe_from_parameters(net, j[0], j[1], 0.3, 60, sections=2)
    pp.create_pipe_from_parameters(net, j[1], j[2], 0.2, 50)
    pp.create_pipe_from_parameters(net, j[1], j[3], 0.2, 50)
    pp.create_pipe_from_parameters(net, j[2], j[3], 0.1, 40)
    pp.create_flow_control(net, j[3], j[4], m * 0.3)
    pp.create_sink(net, j[2], m)
    pp.create_sink(net, j[3], m * 0.5)
    pp.create_sink(net, j[4], m * 0.3)
    pp.create_source(net, j[2], m * 0.1)
    return net


EDITS = [
    ("sink0_x2", lambda n: n.sink.__setitem__("mdot_kg_per_s", n.sink.mdot_kg_per_s * np.array([2.0, 1.0, 1.0]))),
    ("sink1_zero", lambda n: n.sink.loc.__setitem__((n.sink.index[1], "mdot_kg_per_s"), 0.0)),
    ("sink_to_injection", lambda n: n.sink.loc.__setitem__((n.sink.index[0], "scaling"), -1.5)),
    ("eg_pressure", lambda n: n.ext_grid.__setitem__("p_bar", n.ext_grid.p_bar + 0.7)),
    ("fc_setpoint", lambda n: n.flow_control.__setitem__("controlled_mdot_kg_per_s", n.flow_control.controlled_mdot_kg_per_s * 0.5)),
    ("pipe_diameter", lambda n: n.pipe.loc.__setitem__((n.pipe.index[1], "inner_diameter_mm"), 35.0)),
]
CALLS = [(False, False), (True, False), (True, True), (False, True)]


def history_cases(tier):
    """first call (any option combination) without edit, then steps (edit or no edit, call)"""
    out = []
    if tier == "quick":
        steps = [(e, c) for e in [None, 0, 2, 3, 5] for c in (1, 2)]
        depth = 2
    else:
        steps = [(e, c) for e in [None] + list(range(len(EDITS))) for c in range(len(CALLS))]
        depth = 2
    for fluid in ("water", "lgas"):
        for numba in (False, True):
            for first in ((1, 2) if tier == "quick" else range(len(CALLS))):
                for h in range(1, depth + 1):
                    for seq in itertools.product(steps, repeat=h):
                        out.append({"part": "c", "fluid": fluid, "numba": numba, "first": first, "steps": [list(x) for x in seq]})
                if tier == "thorough":
                    # depth 3 with full reuse on every call
                    for seq in itertools.product([(e, 2) for e in [None] + list(range(len(EDITS)))], repeat=3):
                        out.append({"part": "c", "fluid": fluid, "numba": numba, "first": first, "steps": [list(x) for x in seq]})
    return out


def res_snapshot(net):
    out = {}
    for k in net.keys():
        if k.startswith("res_") and hasattr(net[k], "values") and len(net[k]):
            out[k] = net[k].values.astype(float).copy()
    return out


def run_history(case):
    net = hist_net(case["fluid"])
    kw0 = dict(spec.TIGHT, use_numba=case["numba"])
    vs = []
    states = []
    transitions = 0
    seq = [[None, case["first"]]] + case["steps"]
    applied = []
    for i, (e, c) in enumerate(seq):
        if e is not None:
            EDITS[e][1](net)
            applied.append(e)
        upd, reuse = CALLS[c]
        where = "fluid=%s numba=%s history=%s step %d" % (case["fluid"], case["numba"], seq, i)
        try:
            pp.pipeflow(net, only_update_hydraulic_matrix=upd, reuse_internal_data=reuse, **kw0)
            got = ("ok", res_snapshot(net))
        except Exception as ex:
            got = ("raised:" + type(ex).__name__, None)
        transitions += 1
        fresh = hist_net(case["fluid"])
        for a in applied:
            EDITS[a][1](fresh)
        try:
            pp.pipeflow(fresh, **kw0)
            ref = ("ok", res_snapshot(fresh))
        except Exception as ex:
            ref = ("raised:" + type(ex).__name__, None)
        states.append(core.jhash([case["fluid"], case["numba"], seq[:i + 1]]))
        tag = {"update": upd, "reuse": reuse, "edit": EDITS[e][0] if e is not None else "none"}
        if got[0] != ref[0]:
            vs.append(viol("reuse_verdict_differs", "%s: with options %s, fresh calculation %s" % (where, got[0], ref[0]), **tag))
            break
        if got[1] is not None:
            for k in ref[1]:
                a, b = got[1].get(k), ref[1][k]
                ok = a is not None and a.shape == b.shape and np.all(
                    (np.isnan(a) & np.isnan(b)) | (np.abs(a - b) <= 1e-9 + 1e-7 * np.maximum(np.abs(a), np.abs(b))))
                if not ok:
                    # lambda / Re columns lag by one step: compare the solution-defining columns strictly
                    cols = list(net[k].columns)
                    bad = [cols[j] for j in range(b.shape[1]) if not np.all((np.isnan(a[:, j]) & np.isnan(b[:, j])) | (
                        np.abs(a[:, j] - b[:, j]) <= 1e-9 + 1e-7 * np.maximum(np.abs(a[:, j]), np.abs(b[:, j]))))]
                    vs.append(viol("reuse_results_differ", "%s: %s columns %s differ from the fresh calculation" % (where, k, bad), **tag))
                    break
    return {"status": "ok", "violations": vs, "states": states, "transitions": transitions, "traces": 1, "nontrivial": True,
            "sig": core.jhash([case["fluid"], case["numba"], seq])}


# --------------------------------------------------------------------------------------------------
def cases(tier):
    out = [{"part": "a", "kernel": k} for k in ("hyd_incomp", "hyd_comp", "lambda", "medium_pressure", "derived_values",
                                               "sum_by_group", "thermal")]
    hs = scopes.h_cases(3, 3, 1, with_config=False) if tier == "quick" else scopes.h_cases(4, 4, 1, with_config=False)
    for c in hs:
        # quick: the other friction models on the two-junction networks only
        for fm in (("nikuradse",) if (tier == "quick" and c["n"] > 2) else scopes.FRICTION):
            out.append({"part": "b", "case": c, "friction": fm})
    for topo in c10.TOPOS:
        for fluid in ("water", "lgas"):   # the deviation bound applies per fluid (gas + reversed pipe is a pair otherwise)
            for pt, dev in enum.deviations([d for d in c10.dims(topo) if d[0] not in ("numba", "fluid")], 1 if tier == "quick" else 2):
                out.append({"part": "b", "case": {"scope": "T", "topo": topo, "point": dict(pt, numba=False, fluid=fluid)}})
    for lc in c01.loop_cases():
        for mode in ("sequential", "bidirectional"):
            out.append({"part": "b", "case": dict(lc, mode=mode)})
    out += history_cases(tier)
    return out


def solve_both(sp, opts):
    res = []
    for numba in (False, True):
        net, idmap = spec.build(sp)
        kw = dict(spec.TIGHT)
        kw.update(opts)
        kw["use_numba"] = numba
        try:
            if kw.get("mode") == "heat":
                # thermal-only calculation: needs the hydraulic solution of the same engine first
                from pandapipes.idx_node import PINIT
                from pandapipes.idx_branch import MDOTINIT
                pp.pipeflow(net, **dict(kw, mode="hydraulics"))
                u = np.concatenate((net._pit["node"][:, PINIT], net._pit["branch"][:, MDOTINIT]))
                pp.pipeflow(net, sol_vec=u, **kw)
            else:
                pp.pipeflow(net, **kw)
            res.append(("ok", spec.results_by_id(net, idmap)))
        except Exception as e:
            res.append(("raised:" + type(e).__name__, None))
    return res


def run_case(case):
    if case["part"] == "a":
        vs, rows, info = kernel_case(case["kernel"])
        return {"status": "ok", "violations": vs, "states": [core.jhash(["kernel", case["kernel"]])], "transitions": rows,
                "traces": rows, "nontrivial": rows > 10, "sig": case["kernel"], "info": info}
    if case["part"] == "c":
        return run_history(case)
    c = case["case"]
    if c["scope"] == "H":
        sp, opts = scopes.h_spec(c)
        opts["friction_model"] = case.get("friction", "nikuradse")
    elif c["scope"] == "T":
        sp, opts = c10.topo_spec(c)
    else:
        sp, opts = c01.loop_spec(c)
        opts = {"mode": c["mode"]}
    gas = sp["fluid"] != "water"
    try:
        (s0, r0), (s1, r1) = solve_both(sp, opts)
    except Exception as e:
        return {"status": "build_error:" + type(e).__name__, "violations": []}
    vs = []
    if s0 != s1:
        vs.append(viol("engine_verdict_differs", "numpy %s, numba %s; case %s" % (s0, s1, {k: v for k, v in c.items() if k != "point"}),
                       scope=c["scope"], gas=gas))
    elif r0 is not None:
        diffs = spec.compare_results(r0, r1, rtol=1e-9, atol=1e-9, gas=False)
        if diffs:
            d = diffs[0]
            cols = sorted(set(x[1] for x in diffs))
            vs.append(viol("engine_results_differ", "%d cells differ, e.g. %s.%s numpy %r numba %r; columns %s; case dev %s" % (
                len(diffs), d[0], d[1], d[2], d[3], cols[:6], c.get("dev") or c.get("topo") or c.get("rung")),
                scope=c["scope"], col=cols[0], gas=gas))
    return {"status": "ok" if s0 == "ok" else s0, "violations": vs, "states": [core.jhash(["b", c])], "transitions": 2, "traces": 1,
            "nontrivial": s0 == "ok", "sig": core.jhash(c)}
