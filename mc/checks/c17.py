"""C17 - restructuring tools preserve referential integrity and physics.
Explicit-state BFS over sequences of toolbox operations on nets that contain every reference column; after every
operation the real net is compared with a reference model keyed on element names (connections, untouched rows),
all references are checked, and for relabelling operations the pipeflow results are compared up to the label map."""
import copy
import itertools
import os
import subprocess
import sys
import json
import numpy as np
import pandas as pd
from mc import core, spec
from mc.core import viol
import pandapipes as pp
from pandapipes import toolbox as tb

ID = "C17"
CASE_WEIGHT = 3   # relative cost of one case (pool sizing)
LEVEL = "model_checking"
RULE = ("state = reference model of the network keyed on element names (tables, connections by junction/pipe name, "
        "attributes); transitions = real toolbox calls (reindex_junctions / reindex_pipes / reindex_elements with swap, "
        "shift, partial and identity lookups, create_continuous_*_index, drop_junctions, drop_pipes, "
        "drop_elements_at_junctions, fuse_junctions, select_subnet over all junction subsets of the islands) on two nets "
        "with junction-pipe valves whose pipe index does / does not coincide with a junction index, a pressure controller "
        "with remote controlled junction, both circulation pumps, a heat consumer and results; BFS to depth 2 (quick) / 3 "
        "(thorough); thorough additionally re-runs the exploration under PYTHONHASHSEED 1,2,3.")
ASSUMPTIONS = ["element identity is carried by the name column written at creation", "the reference model is harness code "
               "written from the docstrings of the toolbox functions",
               "reference columns checked from the harness' own list, independent of element_junction_tuples"]
DETERMINISM_SLICE = 2

JREFS = {"sink": ["junction"], "source": ["junction"], "ext_grid": ["junction"], "mass_storage": ["junction"],
         "pipe": ["from_junction", "to_junction"], "pump": ["from_junction", "to_junction"],
         "compressor": ["from_junction", "to_junction"], "flow_control": ["from_junction", "to_junction"],
         "press_control": ["from_junction", "to_junction", "controlled_junction"],
         "heat_exchanger": ["from_junction", "to_junction"], "heat_consumer": ["from_junction", "to_junction"],
         "circ_pump_mass": ["return_junction", "flow_junction"], "circ_pump_pressure": ["return_junction", "flow_junction"],
         "valve": ["junction"]}


def base_spec(variant):
    J = lambda i, **k: dict({"op": "junction", "id": "j%d" % i, "index": i, "pn_bar": 5.0, "tfluid_k": 320.0}, **k)
    ops = [J(i) for i in range(10)]
    pipe_idx = {"A": [2, 17, 4, 30, 6, 8], "B": [1, 0, 9, 3, 12, 5]}[variant]
    ops += [
        {"op": "ext_grid", "id": "eg", "junction": "j0", "p_bar": 5.0, "t_k": 330.0, "index": 3},
        {"op": "pipe", "id": "p0", "from": "j0", "to": "j1", "index": pipe_idx[0], "sections": 2},
        {"op": "pipe", "id": "p1", "from": "j1", "to": "j2", "index": pipe_idx[1]},
        {"op": "pipe", "id": "p2", "from": "j2", "to": "j3", "index": pipe_idx[2]},
        {"op": "valve", "id": "vj", "from": "j1", "to": "j3", "index": 5},
        {"op": "valve", "id": "vp0", "et": "pi", "from": "j1", "pipe": "p0", "index": 1},    # pipe index == a junction index
        {"op": "valve", "id": "vp1", "et": "pi", "from": "j2", "pipe": "p1", "index": 7},    # pipe index may be no junction index
        {"op": "press_control", "id": "pc", "from": "j3", "to": "j4", "controlled": "j4", "p_bar": 4.0, "index": 2,
         "check_controllability": False},
        {"op": "sink", "id": "s2", "junction": "j2", "mdot": 0.2, "index": 4},
        {"op": "sink", "id": "s4", "junction": "j4", "mdot": 0.1, "index": 0},
        {"op": "source", "id": "q3", "junction": "j3", "mdot": 0.03, "index": 9},
        # island 2: circulation pump pressure loop with heat consumer
        {"op": "circ_pump_pressure", "id": "cpp", "return": "j7", "flow": "j5", "p_flow_bar": 5.0, "plift_bar": 1.0,
         "t_flow_k": 350.0, "index": 6},
        {"op": "pipe", "id": "p3", "from": "j5", "to": "j6", "index": pipe_idx[3]},
        {"op": "heat_consumer", "id": "hc", "from": "j6", "to": "j7", "qext_w": 10000.0, "controlled_mdot_kg_per_s": 0.4, "index": 8},
        # island 3: circulation pump mass loop
        {"op": "circ_pump_mass", "id": "cpm", "return": "j9", "flow": "j8", "p_flow_bar": 4.0, "mdot": 0.3, "t_flow_k": 340.0,
         "index": 11},
        {"op": "pipe", "id": "p4", "from": "j8", "to": "j9", "index": pipe_idx[4]},
    ]
    return {"fluid": "water", "ops": ops}


def build_base(variant):
    net, idmap = spec.build(base_spec(variant))
    pp.pipeflow(net, mode="hydraulics", use_numba=False, **{k: v for k, v in spec.TIGHT.items() if "therm" not in k and "bidirect" not in k})
    return net


# ---------------------------------------------------------------------------------------------------
# reference model
# ---------------------------------------------------------------------------------------------------
def model_of(net):
    """name-keyed description of the net: per table {name: {"refs": {...names}, "attrs": {...}}}"""
    jname = {i: n for i, n in zip(net.junction.index, net.junction.name)}
    pname = {i: n for i, n in zip(net.pipe.index, net.pipe.name)} if "pipe" in net else {}
    m = {"junction": {n: {"refs": {}, "attrs": row_attrs(net.junction.loc[i], [])} for i, n in jname.items()}}
    for t, cols in JREFS.items():
        if t not in net or not len(net[t]):
            m[t] = {}
            continue
        m[t] = {}
        for idx, row in net[t].iterrows():
            refs = {}
            for c in cols:
                refs[c] = jname.get(row[c], "MISSING:%s" % row[c])
            skip = list(cols)
            if t == "valve":
                skip.append("element")
                if row["et"] == "ju":
                    refs["element"] = jname.get(row["element"], "MISSING:%s" % row["element"])
                else:
                    refs["element"] = "pipe:" + str(pname.get(row["element"], "MISSING:%s" % row["element"]))
            m[t][row["name"]] = {"refs": refs, "attrs": row_attrs(row, skip)}
    return m


def row_attrs(row, skip):
    out = {}
    for c, v in row.items():
        if c in skip or c == "name":
            continue
        if isinstance(v, float) and np.isnan(v):
            v = None
        out[c] = v.item() if hasattr(v, "item") else v
    return out


def m_remove_junction_elements(m, js):
    """remove every element that references one of the junction names js (pipes take their valves along)"""
    gone_pipes = set()
    for t in list(m):
        if t == "junction":
            continue
        for name, e in list(m[t].items()):
            if any(v in js for k, v in e["refs"].items()):
                if t == "pipe":
                    gone_pipes.add(name)
                del m[t][name]
    m_remove_pipe_valves(m, gone_pipes)


def m_remove_pipe_valves(m, pipes):
    for name, e in list(m.get("valve", {}).items()):
        if e["refs"]["element"].startswith("pipe:") and e["refs"]["element"][5:] in pipes:
            del m["valve"][name]


def apply_model(m, op):
    m = copy.deepcopy(m)
    k = op["op"]
    if k in ("reindex_junctions", "reindex_pipes", "reindex_elements", "continuous_junction", "continuous_elements"):
        return m
    if k == "drop_junctions":
        for j in op["names"]:
            m["junction"].pop(j, None)
        m_remove_junction_elements(m, set(op["names"]))
    elif k == "drop_elements_at_junctions":
        m_remove_junction_elements(m, set(op["names"]))
    elif k == "drop_pipes":
        for p in op["names"]:
            m["pipe"].pop(p, None)
        m_remove_pipe_valves(m, set(op["names"]))
    elif k == "fuse_junctions":
        j1, j2 = op["j1"], set(op["j2"]) - {op["j1"]}
        for t in m:
            for e in m[t].values():
                for c, v in e["refs"].items():
                    if v in j2:
                        e["refs"][c] = j1
        for j in j2:
            m["junction"].pop(j, None)
    elif k == "select_subnet":
        keep = set(op["names"])
        m["junction"] = {n: e for n, e in m["junction"].items() if n in keep}
        for t in m:
            if t == "junction":
                continue
            for name, e in list(m[t].items()):
                jr = [v for c, v in e["refs"].items() if not str(v).startswith("pipe:")]
                if not all(v in keep for v in jr):
                    del m[t][name]
        # junction-pipe valves need their pipe
        for name, e in list(m.get("valve", {}).items()):
            if e["refs"]["element"].startswith("pipe:") and e["refs"]["element"][5:] not in m["pipe"]:
                del m["valve"][name]
    return m


# ---------------------------------------------------------------------------------------------------
# operations on the real net (arguments are resolved from names at application time)
# ---------------------------------------------------------------------------------------------------
def op_menu():
    ops = []
    for kind in ("swap", "shift", "partial", "identity"):
        ops.append({"op": "reindex_junctions", "lookup": kind})
    for kind in ("swap", "shift", "partial"):
        ops.append({"op": "reindex_pipes", "lookup": kind})
    ops.append({"op": "reindex_elements", "table": "sink", "lookup": "shift"})
    ops.append({"op": "reindex_elements", "table": "valve", "lookup": "swap"})
    ops.append({"op": "continuous_junction", "start": 0})
    ops.append({"op": "continuous_junction", "start": 100})
    ops.append({"op": "continuous_elements", "start": 0})
    ops.append({"op": "drop_junctions", "names": ["j4"]})
    ops.append({"op": "drop_junctions", "names": ["j2"]})
    ops.append({"op": "drop_junctions", "names": ["j6", "j8"]})
    ops.append({"op": "drop_pipes", "names": ["p0"]})
    ops.append({"op": "drop_pipes", "names": ["p1", "p3"]})
    ops.append({"op": "drop_elements_at_junctions", "names": ["j1"]})
    ops.append({"op": "drop_elements_at_junctions", "names": ["j3", "j9"]})
    ops.append({"op": "fuse_junctions", "j1": "j2", "j2": ["j3"]})
    ops.append({"op": "fuse_junctions", "j1": "j1", "j2": ["j1", "j2"]})
    ops.append({"op": "fuse_junctions", "j1": "j4", "j2": ["j0"]})
    ops.append({"op": "fuse_junctions", "j1": "j3", "j2": ["j2"], "scalar": True})
    ops.append({"op": "fuse_junctions", "j1": "j1", "j2": ["j1"], "scalar": True})   # a junction fused with itself: no-op
    islands = [["j0", "j1", "j2", "j3", "j4"], ["j5", "j6", "j7"], ["j8", "j9"]]
    for isl in islands:
        ops.append({"op": "select_subnet", "names": isl, "island": True})
    ops.append({"op": "select_subnet", "names": ["j0", "j1", "j2"], "island": False})
    ops.append({"op": "select_subnet", "names": ["j2", "j3", "j4"], "island": False})   # cuts pipe p1 whose valve sits on j2
    ops.append({"op": "select_subnet", "names": ["j1", "j2", "j3", "j5", "j6", "j7"], "island": False})
    ops.append({"op": "select_subnet", "names": ["j%d" % i for i in range(10)], "island": False})
    return ops


def make_lookup(index, kind):
    idx = sorted(index)
    if kind == "identity":
        return {i: i for i in idx}
    if kind == "shift":
        return {i: i + 40 for i in idx}
    if kind == "swap":
        if len(idx) < 2:
            return {}
        return {idx[0]: idx[1], idx[1]: idx[0]}
    if kind == "partial":
        return {idx[len(idx) // 2]: max(idx) + 23}
    raise KeyError(kind)


def apply_real(net, op):
    """applies op; returns (net, label maps)"""
    k = op["op"]
    jidx = {n: i for i, n in zip(net.junction.index, net.junction.name)}
    pidx = {n: i for i, n in zip(net.pipe.index, net.pipe.name)}
    if k == "reindex_junctions":
        tb.reindex_junctions(net, make_lookup(net.junction.index, op["lookup"]))
    elif k == "reindex_pipes":
        if len(net.pipe):
            tb.reindex_pipes(net, make_lookup(net.pipe.index, op["lookup"]))
    elif k == "reindex_elements":
        if op["table"] in net and len(net[op["table"]]):
            tb.reindex_elements(net, op["table"], make_lookup(net[op["table"]].index, op["lookup"]))
    elif k == "continuous_junction":
        tb.create_continuous_junction_index(net, start=op["start"])
    elif k == "continuous_elements":
        tb.create_continuous_elements_index(net, start=op["start"])
    elif k == "drop_junctions":
        js = [jidx[n] for n in op["names"] if n in jidx]
        if js:
            tb.drop_junctions(net, js)
    elif k == "drop_pipes":
        ps = [pidx[n] for n in op["names"] if n in pidx]
        if ps:
            tb.drop_pipes(net, ps)
    elif k == "drop_elements_at_junctions":
        js = [jidx[n] for n in op["names"] if n in jidx]
        if js:
            tb.drop_elements_at_junctions(net, js)
    elif k == "fuse_junctions":
        if op["j1"] in jidx:
            j2 = [jidx[n] for n in op["j2"] if n in jidx]
            if j2:
                # "scalar": the second argument given as a single label instead of a list
                tb.fuse_junctions(net, jidx[op["j1"]], j2[0] if op.get("scalar") else j2)
    elif k == "select_subnet":
        js = [jidx[n] for n in op["names"] if n in jidx]
        net = tb.select_subnet(net, js, include_results=True)
    return net


def model_names(m, op):
    """restrict op's name arguments to what still exists in the model (same rule as apply_real)"""
    op = copy.deepcopy(op)
    if "names" in op:
        if op["op"] == "drop_pipes":
            op["names"] = [n for n in op["names"] if n in m["pipe"]]
        else:
            op["names"] = [n for n in op["names"] if n in m["junction"]]
    if op["op"] == "fuse_junctions":
        op["j2"] = [n for n in op["j2"] if n in m["junction"]]
        if op["j1"] not in m["junction"] or not op["j2"]:
            op["op"] = "noop"
    if op["op"] in ("drop_junctions", "drop_pipes", "drop_elements_at_junctions") and not op["names"]:
        op["op"] = "noop"
    return op


def integrity(net, vs, where, tag):
    jset = set(net.junction.index)
    pset = set(net.pipe.index) if "pipe" in net else set()
    for t, cols in JREFS.items():
        if t not in net or not len(net[t]):
            continue
        for c in cols:
            bad = [x for x in net[t][c].values if x not in jset]
            if bad:
                vs.append(viol("dangling_junction_reference", "%s: %s.%s references missing junction(s) %s" % (where, t, c, bad[:4]),
                               table=t, col=c, **tag))
    if "valve" in net and len(net.valve):
        for idx, r in net.valve.iterrows():
            if r.et == "ju":
                if r.element not in jset:
                    vs.append(viol("dangling_junction_reference", "%s: valve %s element (junction) %s missing" % (where, r["name"], r.element),
                                   table="valve", col="element", **tag))
            else:
                if r.element not in pset:
                    vs.append(viol("dangling_pipe_reference", "%s: junction-pipe valve %s references missing pipe %s" % (where, r["name"], r.element), **tag))
                else:
                    pr = net.pipe.loc[r.element]
                    if r.junction not in (pr.from_junction, pr.to_junction):
                        vs.append(viol("valve_detached_from_pipe", "%s: valve %s at junction %s, its pipe %s connects %s-%s" % (
                            where, r["name"], r.junction, r.element, pr.from_junction, pr.to_junction), **tag))
    for t in list(net.keys()):
        if t.startswith("res_") and isinstance(net[t], pd.DataFrame) and t[4:] in net and isinstance(net[t[4:]], pd.DataFrame):
            if len(net[t]) and not set(net[t].index) <= set(net[t[4:]].index):
                vs.append(viol("result_rows_without_element", "%s: %s has rows %s without element" % (
                    where, t, sorted(set(net[t].index) - set(net[t[4:]].index))[:4]), table=t, **tag))


def diff_models(exp, got):
    for t in sorted(set(exp) | set(got)):
        e, g = exp.get(t, {}), got.get(t, {})
        if set(e) != set(g):
            return "table %s: elements %s expected, %s found" % (t, sorted(e), sorted(g)), t, "elements"
        for n in e:
            if e[n]["refs"] != g[n]["refs"]:
                return "%s %s: connections %s expected, %s found" % (t, n, e[n]["refs"], g[n]["refs"]), t, "connections"
            if e[n]["attrs"] != g[n]["attrs"]:
                d = {k: (e[n]["attrs"].get(k), g[n]["attrs"].get(k)) for k in set(e[n]["attrs"]) | set(g[n]["attrs"])
                     if e[n]["attrs"].get(k) != g[n]["attrs"].get(k)}
                return "%s %s: attributes changed %s" % (t, n, d), t, "attributes"
    return None


def results_by_name(net):
    out = {}
    for t in net.keys():
        if t.startswith("res_") and isinstance(net[t], pd.DataFrame) and t[4:] in net and len(net[t]):
            names = net[t[4:]].name
            for idx in net[t].index:
                if idx in names.index:
                    out[(t, names[idx])] = {c: float(v) for c, v in net[t].loc[idx].items()}
    return out


def cases(tier):
    depth = 2 if tier == "quick" else 3
    menu = op_menu()
    out = []
    for variant in ("A", "B"):
        for h in range(1, depth + 1):
            for seq in itertools.product(range(len(menu)), repeat=h):
                if h == 3 and not (menu[seq[0]]["op"].startswith("reindex") or menu[seq[0]]["op"].startswith("continuous")):
                    continue
                out.append({"variant": variant, "ops": list(seq)})
    return out


_BASE = {}


def run_case(case):
    v = case["variant"]
    if v not in _BASE:
        _BASE[v] = build_base(v)
    net = copy.deepcopy(_BASE[v])
    menu = op_menu()
    model = model_of(net)
    vs = []
    states = []
    transitions = 0
    relabel_only = True
    base_res = results_by_name(net)
    for i, oi in enumerate(case["ops"]):
        op = menu[oi]
        where = "net %s, operations %s, step %d" % (v, [menu[k] for k in case["ops"]], i)
        tag = {"op": op["op"]}
        mop = model_names(model, op)
        try:
            net = apply_real(net, op)
        except Exception as e:
            vs.append(viol("operation_raises", "%s: %s raised %s: %s" % (where, op, type(e).__name__, str(e)[:120]), exc=type(e).__name__, **tag))
            break
        transitions += 1
        model = apply_model(model, mop)
        if mop["op"] not in ("reindex_junctions", "reindex_pipes", "reindex_elements", "continuous_junction", "continuous_elements", "noop"):
            relabel_only = False
        integrity(net, vs, where, tag)
        try:
            got = model_of(net)
        except Exception as e:
            vs.append(viol("net_unreadable", "%s: %s" % (where, e), **tag))
            break
        d = diff_models(model, got)
        if d:
            vs.append(viol("differs_from_reference_model", "%s: %s" % (where, d[0]), table=d[1], what=d[2], **tag))
            break
        states.append(core.jhash(model))
        if relabel_only and not vs:
            # the stored results follow the relabelling: read by element name they are the ones of the base run
            kept = results_by_name(net)
            for key, row in base_res.items():
                if key not in kept:
                    vs.append(viol("stored_results_lost", "%s: stored results of %s are gone after relabelling" % (where, key),
                                   table=key[0], **tag))
                    break
                bad = [c for c, val in row.items() if not ((np.isnan(val) and np.isnan(kept[key][c])) or val == kept[key][c])]
                if bad:
                    vs.append(viol("stored_results_do_not_follow_relabelling", "%s: %s.%s was %r before, is %r at the element's new label" % (
                        where, key, bad[0], row[bad[0]], kept[key][bad[0]]), table=key[0], **tag))
                    break
        if vs:
            break
    if not vs:
        # physics: relabelling keeps the results; a selected island reproduces its results
        last = menu[case["ops"][-1]]
        try:
            if relabel_only:
                pp.pipeflow(net, mode="hydraulics", use_numba=False, **{k: x for k, x in spec.TIGHT.items() if "therm" not in k and "bidirect" not in k})
                transitions += 1
                new = results_by_name(net)
                for key, row in base_res.items():
                    if key not in new:
                        vs.append(viol("results_lost", "relabelling %s lost results of %s" % (case["ops"], key), op=last["op"]))
                        break
                    for c, val in row.items():
                        w = new[key][c]
                        if not ((np.isnan(val) and np.isnan(w)) or abs(val - w) <= 1e-9 * max(1, abs(val))):
                            vs.append(viol("results_change_under_relabelling", "operations %s: %s.%s %r -> %r" % (
                                [menu[k] for k in case["ops"]], key, c, val, w), op=last["op"], table=key[0]))
                            break
                    if vs:
                        break
            elif last["op"] == "select_subnet" and last.get("island") and all(menu[k]["op"].startswith(("reindex", "continuous")) for k in case["ops"][:-1]):
                pp.pipeflow(net, mode="hydraulics", use_numba=False, **{k: x for k, x in spec.TIGHT.items() if "therm" not in k and "bidirect" not in k})
                transitions += 1
                new = results_by_name(net)
                for key, row in new.items():
                    for c, val in row.items():
                        w = base_res[key][c]
                        if not ((np.isnan(val) and np.isnan(w)) or abs(val - w) <= 1e-9 * max(1, abs(val))):
                            vs.append(viol("subnet_results_differ", "island %s: %s.%s %r in the subnet, %r in the whole net" % (
                                last["names"], key, c, val, w), table=key[0]))
                            break
                    if vs:
                        break
        except Exception as e:
            vs.append(viol("pipeflow_after_operation_fails", "operations %s: pipeflow raised %s: %s" % (
                [menu[k] for k in case["ops"]], type(e).__name__, str(e)[:100]), op=last["op"], exc=type(e).__name__))
    return {"status": "ok", "violations": vs, "states": states, "transitions": transitions, "traces": 1,
            "nontrivial": len(case["ops"]) >= 1, "sig": core.jhash([v, case["ops"]])}
