"""C06 - results do not depend on labels, row order or creation order.
All permutations of label pools / table rows / creation order of element kinds on base networks;
oracle = results joined on element identity equal those of the reference description."""
import copy
import itertools
import numpy as np
from mc import core, spec
from mc.core import viol
import pandapipes as pp

ID = "C06"
LEVEL = "exploration"
RULE = ("per base network (water mesh with multi-section pipes of unequal section counts, junction-pipe valve, "
        "out-of-service pipe, duplicate sinks; gas net with compressor; heat loop with circulation pump and consumers): "
        "ALL permutations of the junction labels and of the pipe labels over 4 label pools (0..n-1, non-contiguous, "
        "descending-gap, containing >=100000), all permutations of the labels of every other table, ALL row "
        "permutations of one table at a time, ALL creation orders of the element kinds; numba on/off; hydraulics and "
        "sequential mode. Non-trivial = variant differs from the reference description and the run returned; "
        "distinct = distinct (base, kind of variant, permutation).")
ASSUMPTIONS = ["tight solver options; identical physical description => cell-wise equality within 1e-9 relative",
               "both descriptions must give the same verdict (returned / exception class)"]
MIN_OK_FRACTION = 0.5


def base_water():
    ops = []
    for i in range(5):
        ops.append({"op": "junction", "id": "j%d" % i, "pn_bar": 5.0, "tfluid_k": 330.0, "height_m": 2.0 * i})
    ops.append({"op": "junction", "id": "j5", "pn_bar": 5.0, "tfluid_k": 330.0, "height_m": 4.0})
    ops += [
        {"op": "ext_grid", "id": "eg0", "junction": "j0", "p_bar": 5.0, "t_k": 360.0},
        {"op": "pipe", "id": "pA", "from": "j0", "to": "j1", "length_km": 0.3, "d_mm": 60.0, "u": 12.0, "sections": 1},
        # stagnant dead end with many sections (friction factor 64/Re of a pipe without flow is ~1e9 per section)
        {"op": "pipe", "id": "pS", "from": "j2", "to": "j5", "length_km": 0.2, "d_mm": 50.0, "u": 12.0, "sections": 6},
        {"op": "pipe", "id": "pB", "from": "j1", "to": "j2", "length_km": 0.4, "d_mm": 50.0, "u": 12.0, "sections": 4},
        {"op": "pipe", "id": "pC", "from": "j1", "to": "j3", "length_km": 0.2, "d_mm": 40.0, "u": 12.0, "sections": 2,
         "in_service": False},
        {"op": "pipe", "id": "pD", "from": "j2", "to": "j3", "length_km": 0.25, "d_mm": 50.0, "u": 12.0, "sections": 3},
        {"op": "pipe", "id": "pE", "from": "j3", "to": "j4", "length_km": 0.15, "d_mm": 40.0, "u": 12.0, "sections": 2},
        {"op": "valve", "id": "vA", "et": "pi", "from": "j2", "pipe": "pD"},
        {"op": "valve", "id": "vC", "et": "pi", "from": "j1", "pipe": "pB"},     # three valve groups: their order under
        {"op": "valve", "id": "vD", "et": "pi", "from": "j4", "pipe": "pE"},     # relabelling covers every permutation
        {"op": "valve", "id": "vB", "from": "j1", "to": "j4", "d_mm": 30.0, "zeta": 5.0},
        {"op": "sink", "id": "s2", "junction": "j2", "mdot": 0.25},
        {"op": "sink", "id": "s5", "junction": "j5", "mdot": 1e-12},   # keeps the dead end at a non-zero, laminar trickle
        {"op": "sink", "id": "s3", "junction": "j3", "mdot": 0.15},
        {"op": "sink", "id": "s4", "junction": "j4", "mdot": 0.2},
        {"op": "sink", "id": "s2b", "junction": "j2", "mdot": 0.1, "scaling": 0.5},
        {"op": "source", "id": "q3", "junction": "j3", "mdot": 0.05},
    ]
    return {"fluid": "water", "ops": ops}, ["hydraulics", "sequential"]


def base_gas():
    ops = []
    for i in range(7):
        ops.append({"op": "junction", "id": "j%d" % i, "pn_bar": 1.0, "tfluid_k": 290.0 + 3 * min(i, 4)})
    ops += [
        {"op": "ext_grid", "id": "eg0", "junction": "j0", "p_bar": 1.0, "t_k": 290.0},
        {"op": "ext_grid", "id": "eg1", "junction": "j4", "p_bar": 0.9, "t_k": 302.0},  # = start temperature of j4 (consistent description)
        {"op": "ext_grid", "id": "eg2", "junction": "j0", "p_bar": 1.1, "t_k": 290.0},
        {"op": "pipe", "id": "pA", "from": "j0", "to": "j1", "length_km": 1.0, "d_mm": 80.0, "sections": 2},
        {"op": "pipe", "id": "pB", "from": "j1", "to": "j2", "length_km": 0.8, "d_mm": 60.0, "sections": 1},
        {"op": "pipe", "id": "pC", "from": "j2", "to": "j3", "length_km": 0.6, "d_mm": 60.0, "sections": 3},
        {"op": "compressor", "id": "cA", "from": "j3", "to": "j4", "ratio": 1.1},
        {"op": "press_control", "id": "pcA", "from": "j2", "to": "j5", "controlled": "j6", "p_bar": 0.7, "check_controllability": False},
        {"op": "pipe", "id": "pD", "from": "j5", "to": "j6", "length_km": 0.3, "d_mm": 50.0},
        {"op": "sink", "id": "s6", "junction": "j6", "mdot": 0.002},
        {"op": "sink", "id": "s1", "junction": "j1", "mdot": 0.008},
        {"op": "sink", "id": "s2", "junction": "j2", "mdot": 0.006},
        {"op": "sink", "id": "s3", "junction": "j3", "mdot": 0.004},
        {"op": "sink", "id": "s1b", "junction": "j1", "mdot": 0.002},
        {"op": "mass_storage", "id": "m2", "junction": "j2", "mdot": 0.001},
    ]
    return {"fluid": "lgas", "ops": ops}, ["hydraulics"]


def base_loop():
    ops = []
    for i in range(6):
        ops.append({"op": "junction", "id": "j%d" % i, "pn_bar": 5.0, "tfluid_k": 340.0})
    ops += [
        {"op": "circ_pump_pressure", "id": "cp", "return": "j5", "flow": "j0", "p_flow_bar": 5.0, "plift_bar": 1.0,
         "t_flow_k": 355.0},
        {"op": "pipe", "id": "pA", "from": "j0", "to": "j1", "length_km": 0.3, "d_mm": 60.0, "u": 15.0, "sections": 3},
        {"op": "pipe", "id": "pB", "from": "j1", "to": "j2", "length_km": 0.2, "d_mm": 50.0, "u": 15.0, "sections": 1},
        {"op": "heat_consumer", "id": "hA", "from": "j1", "to": "j4", "qext_w": 20000.0, "controlled_mdot_kg_per_s": 0.4},
        {"op": "heat_consumer", "id": "hB", "from": "j2", "to": "j3", "qext_w": 15000.0, "controlled_mdot_kg_per_s": 0.3},
        {"op": "pipe", "id": "pC", "from": "j3", "to": "j4", "length_km": 0.2, "d_mm": 50.0, "u": 15.0, "sections": 2},
        {"op": "pipe", "id": "pD", "from": "j4", "to": "j5", "length_km": 0.3, "d_mm": 60.0, "u": 15.0, "sections": 1},
    ]
    return {"fluid": "water", "ops": ops}, ["sequential"]


BASES = {"water": base_water, "gas": base_gas, "loop": base_loop}
POOLS = {
    "range": lambda n: list(range(n)),
    "gaps": lambda n: [3, 7, 12, 40, 41, 77, 90][:n],
    "mixed": lambda n: [50, 2, 31, 8, 19, 4, 66][:n],
    "big": lambda n: [1, 100000, 5, 200001, 9, 300007, 12][:n],
    # beyond 2^24: labels that a 32 bit float cannot represent exactly
    "huge": lambda n: [20000005, 20000004, 20000002, 20000000, 20000001, 20000007, 20000003][:n],
}


def tables_of(sp):
    t = {}
    for o in sp["ops"]:
        k = "pipe" if o["op"] == "pipe_std" else spec.OP_TABLE[o["op"]]
        t.setdefault(k, []).append(o["id"])
    return t


def cases(tier):
    out = []
    for bname, bf in BASES.items():
        sp, modes = bf()
        tabs = tables_of(sp)
        for mode in modes:
            for numba in (False, True):
                common = {"base": bname, "mode": mode, "numba": numba}
                # labels
                for table, ids in tabs.items():
                    n = len(ids)
                    if n < 2 and table != "junction":
                        pools = ["gaps", "big"]
                    else:
                        pools = ["range", "gaps", "mixed", "big"]
                    if tier == "quick" and table not in ("junction", "pipe"):
                        pools = ["mixed", "big"]
                    if table == "junction":
                        pools = pools + ["huge"]
                    for pool in pools:
                        labs = POOLS[pool](n)
                        perms = itertools.permutations(labs)
                        if pool == "huge" or (tier == "quick" and n > 4):
                            # quick: all permutations of the first pool, all cyclic shifts + reversals of the others
                            if pool != "range" or n > 5:
                                perms = [tuple(labs[i:] + labs[:i]) for i in range(n)] + \
                                        [tuple(reversed(labs[i:] + labs[:i])) for i in range(n)]
                        for perm in perms:
                            out.append(dict(common, kind="labels", table=table, pool=pool, perm=list(perm)))
                # row order (creation order inside one table), labels pinned to the elements
                for table, ids in tabs.items():
                    n = len(ids)
                    if n < 2:
                        continue
                    for perm in itertools.permutations(range(n)):
                        if perm == tuple(range(n)):
                            continue
                        if tier == "quick" and n > 4 and perm[0] not in (n - 1, 1):
                            continue
                        out.append(dict(common, kind="rows", table=table, perm=list(perm)))
                # creation order of element kinds
                kinds = [k for k in tabs if k != "junction"]
                for perm in itertools.permutations(kinds):
                    if "valve" in perm and perm.index("valve") < perm.index("pipe"):
                        continue
                    if tier == "quick" and len(kinds) > 4 and perm[0] != kinds[-1] and perm[-1] != kinds[0]:
                        continue
                    out.append(dict(common, kind="kinds", perm=list(perm)))
                    # on a Sector.NONE net the component list (and with it the order of the internal tables) follows
                    # the creation order
                    if not numba:
                        out.append(dict(common, kind="kinds", perm=list(perm), sector="none"))
    return out


def reference_spec(sp):
    """explicit labels 0..n-1 in creation order"""
    sp = copy.deepcopy(sp)
    cnt = {}
    for o in sp["ops"]:
        t = spec.OP_TABLE[o["op"]]
        o["index"] = cnt.get(t, 0)
        cnt[t] = o["index"] + 1
    return sp


def variant_spec(sp0, case):
    sp = reference_spec(sp0)
    tabs = tables_of(sp)
    byid = {o["id"]: o for o in sp["ops"]}
    if case["kind"] == "labels":
        for eid, lab in zip(tabs[case["table"]], case["perm"]):
            byid[eid]["index"] = lab
    elif case["kind"] == "rows":
        ids = tabs[case["table"]]
        pos = [i for i, o in enumerate(sp["ops"]) if o["id"] in ids]
        new = [byid[ids[p]] for p in case["perm"]]
        if case["table"] == "valve" or case["table"] == "pipe":
            pass
        for p, o in zip(pos, new):
            sp["ops"][p] = o
    elif case["kind"] == "kinds":
        juncs = [o for o in sp["ops"] if o["op"] == "junction"]
        rest = []
        for k in case["perm"]:
            rest += [byid[i] for i in tabs[k]]
        sp["ops"] = juncs + rest
    return sp


_REF = {}


def solve(sp, mode, numba, sector=None):
    from pandapipes.pandapipes_net import Sector
    net, idmap = spec.build(sp, sector=Sector.NONE if sector == "none" else None)
    kw = dict(spec.TIGHT)
    kw.update(mode=mode, use_numba=numba)
    try:
        pp.pipeflow(net, **kw)
    except Exception as e:
        return "raised:" + type(e).__name__, None
    return "ok", spec.results_by_id(net, idmap)


def warmup():
    spec.warmup_numba()


def run_case(case):
    sp0, _ = BASES[case["base"]]()
    key = (case["base"], case["mode"], case["numba"])
    if key not in _REF:
        _REF[key] = solve(reference_spec(sp0), case["mode"], case["numba"])
    st0, r0 = _REF[key]
    try:
        spv = variant_spec(sp0, case)
        st1, r1 = solve(spv, case["mode"], case["numba"], case.get("sector"))
    except Exception as e:
        return {"status": "build_error:" + type(e).__name__, "violations": [
            viol("variant_build_failed", "%s: %s %s" % (case, type(e).__name__, str(e)[:200]), kind=case["kind"])]}
    vs = []
    tag = {"kind": case["kind"] + ("_sector_none" if case.get("sector") else ""), "table": case.get("table", "-"), "base": case["base"]}
    if st0 != st1:
        vs.append(viol("verdict_differs", "%s: reference %s, variant %s" % (case, st0, st1), **tag))
    elif r0 is not None:
        diffs = spec.compare_results(r0, r1, rtol=1e-9, atol=1e-9)
        if diffs:
            cols = sorted(set(d[1] for d in diffs))
            d = diffs[0]
            vs.append(viol("results_differ", "%s: %d cells differ, e.g. %s.%s reference %r variant %r; columns %s" % (
                {k: case[k] for k in ("base", "mode", "numba", "kind", "perm") if k in case}, len(diffs), d[0], d[1], d[2], d[3], cols),
                col=cols[0], ncols=len(cols), **tag))
    return {"status": "ok" if st1 == "ok" else st1, "violations": vs, "nontrivial": st1 == "ok",
            "sig": core.jhash([case["base"], case["kind"], case.get("table"), case["perm"], case.get("sector")]),
            "info": {"variants_" + case["kind"]: 1}}
