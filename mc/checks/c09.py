"""C09 - physically equivalent descriptions give identical results.
Every application site of every rewrite (reverse branch, sections <-> series pipes, re-sectioning of liquid pipes,
load aggregation, source <-> negative sink, disabled <-> deleted, pressure shift) on scope H / scope T bases;
oracle = original vs rewritten network joined on element identity."""
import copy
import itertools
import numpy as np
from mc import core, spec, scopes, enum
from mc.core import viol
from mc.oracles import supply
from mc.checks import c10
import pandapipes as pp

ID = "C09"
LEVEL = "exploration"
RULE = ("bases: scope H (all skeletons n<=3 (quick) / 4 (thorough), every feeder, water and gas, d<=1 over branch/load/"
        "height/feeder alphabet) and scope T thermal topologies (d<=1, sequential); for every base every application "
        "site of R1 swap from/to (pipe, valve, heat exchanger), R2 s-section pipe = s pipes in series, R3 re-sectioning "
        "1<->2<->3 of liquid pipes (hydraulics), R4 split a load into two scaled loads, R5 source<->negative sink, "
        "R6 out-of-service / closed element deleted, R7 pressure shift for liquids; thorough: all pairs of sites. "
        "Non-trivial = both sides returned; distinct = distinct (base, rewrite, site).")
ASSUMPTIONS = ["tight solver options; equality to 1e-9 relative on the common result cells",
               "R1 on an element flips the sign of its flow / velocity columns and swaps its from/to columns",
               "R3 only for liquids whose junction temperatures are uniform (statement)"]
MIN_OK_FRACTION = 0.4

SWAP = [("p_from_bar", "p_to_bar"), ("t_from_k", "t_to_k"), ("mdot_from_kg_per_s", "mdot_to_kg_per_s"),
        ("normfactor_from", "normfactor_to")]
NEG = ["v_mean_m_per_s", "vdot_m3_per_s", "vdot_norm_m3_per_s"]
SWAPNEG = [("v_from_m_per_s", "v_to_m_per_s")]


def warmup():
    spec.warmup_numba()


def sites(sp):
    out = []
    ops = sp["ops"]
    liquid = sp["fluid"] == "water"
    temps = {o.get("tfluid_k", 300.0) for o in ops if o["op"] == "junction"}
    # a pump / compressor inside a mesh switches its lift off for reverse flow: the hydraulic solution is not unique and
    # Newton's start values follow the declared orientation, so a reversal may legitimately land on the other solution
    n_j = sum(1 for o in ops if o["op"] == "junction")
    n_b = sum(1 for o in ops if o["op"] in supply.BRANCH_OPS and "to" in o)
    lift_in_mesh = any(o["op"] in ("pump", "compressor") for o in ops) and n_b >= n_j
    for o in ops:
        k = o["op"]
        if (k == "pipe" or (k == "valve" and o.get("et", "ju") == "ju") or k == "heat_exchanger") and not lift_in_mesh:
            if not (k == "pipe" and any(v["op"] == "valve" and v.get("et") == "pi" and v["pipe"] == o["id"] for v in ops)):
                out.append(("R1", o["id"]))
        if k == "pipe" and o.get("sections", 1) > 1 and not any(
                v["op"] == "valve" and v.get("et") == "pi" and v["pipe"] == o["id"] for v in ops):
            out.append(("R2", o["id"]))
        if k == "pipe" and liquid and len(temps) == 1 and sp.get("_mode", "hydraulics") == "hydraulics":
            for s2 in ((2,) if o.get("sections", 1) != 2 else (1, 3)):
                out.append(("R3", o["id"], s2))
        if k in ("sink", "source", "mass_storage") and o.get("in_service", True) and not np.isnan(o.get("mdot", 0.1)):
            out.append(("R4", o["id"]))
        if k in ("sink", "source"):
            out.append(("R5", o["id"]))
        if (k in supply.BRANCH_OPS or k in ("sink", "source", "mass_storage")) and (
                not o.get("in_service", True) or (k == "valve" and o.get("et", "ju") == "ju" and not o.get("opened", True))):
            out.append(("R6", o["id"]))
    if liquid:
        out.append(("R7", 0.7))
    return out


def rewrite(sp, site):
    """returns (new spec, comparison plan)"""
    sp = copy.deepcopy(sp)
    ops = sp["ops"]
    byid = {o["id"]: o for o in ops}
    plan = {"flip": set(), "skip": set(), "map": {}, "shift": 0.0, "extra_skip_cols": set()}
    r = site[0]
    if r == "R1":
        o = byid[site[1]]
        o["from"], o["to"] = o["to"], o["from"]
        plan["flip"].add(o["id"])
    elif r == "R2":
        o = byid[site[1]]
        n = o["sections"]
        i0 = ops.index(o)
        ja, jb = byid[o["from"]], byid[o["to"]]
        new = []
        prev = o["from"]
        for s in range(n):
            if s < n - 1:
                f = (s + 1) / n
                jid = "%s_j%d" % (o["id"], s)
                jn = {"op": "junction", "id": jid, "pn_bar": ja.get("pn_bar", 5.0),
                      "tfluid_k": ja.get("tfluid_k", 300.0) + f * (jb.get("tfluid_k", 300.0) - ja.get("tfluid_k", 300.0)),
                      "height_m": ja.get("height_m", 0.0) + f * (jb.get("height_m", 0.0) - ja.get("height_m", 0.0)),
                      "index": 9000 + 10 * i0 + s}
                new.append(jn)
                nxt = jid
            else:
                nxt = o["to"]
            po = dict(o, id="%s_s%d" % (o["id"], s), sections=1, length_km=o.get("length_km", 0.3) / n, zeta=o.get("zeta", 0.0) / n)
            po["from"], po["to"] = prev, nxt
            po.pop("index", None)
            po["index"] = 9000 + 10 * i0 + s
            new.append(po)
            prev = nxt
        ops[i0:i0 + 1] = new
        plan["skip"].add(o["id"])
        plan["map"][o["id"]] = ["%s_s%d" % (o["id"], s) for s in range(n)]
    elif r == "R3":
        byid[site[1]]["sections"] = site[2]
        plan["extra_skip_cols"] |= set()
    elif r == "R4":
        o = byid[site[1]]
        i0 = ops.index(o)
        m, sc = o.get("mdot", 0.1), o.get("scaling", 1.0)
        a = dict(o, id=o["id"] + "_a", mdot=m * 0.3, scaling=sc)
        b = dict(o, id=o["id"] + "_b", mdot=m * 0.35, scaling=sc * 2.0)
        a.pop("index", None)
        b.pop("index", None)
        a["index"], b["index"] = 9100 + i0, 9200 + i0
        ops[i0:i0 + 1] = [a]
        ops.append(b)  # non-adjacent rows
        plan["skip"].add(o["id"])
    elif r == "R5":
        o = byid[site[1]]
        o["op"] = "source" if o["op"] == "sink" else "sink"
        o["mdot"] = -o.get("mdot", 0.1)
        o["index"] = 9300 + ops.index(o)
        plan["skip"].add(o["id"])
        plan["negload"] = o["id"]
    elif r == "R6":
        o = byid[site[1]]
        ops.remove(o)
        for v in list(ops):
            if v["op"] == "valve" and v.get("et") == "pi" and v.get("pipe") == o["id"]:
                ops.remove(v)
                plan["skip"].add(v["id"])
        plan["skip"].add(o["id"])
    elif r == "R7":
        d = site[1]
        for o in ops:
            if o["op"] == "ext_grid":
                o["p_bar"] = o.get("p_bar", 5.0) + d
            if o["op"] in ("circ_pump_mass", "circ_pump_pressure"):
                o["p_flow_bar"] = o.get("p_flow_bar", 5.0) + d
            if o["op"] == "press_control":
                o["p_bar"] = o.get("p_bar", 4.5) + d
        plan["shift"] = d
    return sp, plan


def explicit_labels(sp):
    sp = copy.deepcopy(sp)
    cnt = {}
    for o in sp["ops"]:
        t = spec.OP_TABLE[o["op"]]
        if o.get("index") is None:
            o["index"] = cnt.get(t, 0)
        cnt[t] = max(cnt.get(t, 0), o["index"] + 1)
    return sp


def solve(sp, opts):
    net, idmap = spec.build(sp)
    kw = dict(spec.TIGHT)
    kw.update(opts)
    try:
        pp.pipeflow(net, **kw)
    except Exception as e:
        return "raised:" + type(e).__name__, None, None
    return "ok", spec.results_by_id(net, idmap), net


def transform(row, plan, eid):
    if row is None:
        return None
    row = dict(row)
    if eid in plan["flip"]:
        for a, b in SWAP:
            if a in row:
                row[a], row[b] = row[b], row[a]
        for a, b in SWAPNEG:
            if a in row:
                row[a], row[b] = -row[b], -row[a]
        for c in NEG:
            if c in row:
                row[c] = -row[c]
    if plan["shift"]:
        for c in ("p_bar", "p_from_bar", "p_to_bar"):
            if c in row:
                row[c] = row[c] - plan["shift"]
    if "dp_friction_loss_bar" in row:
        row["dp_friction_loss_bar"] = abs(row["dp_friction_loss_bar"])
    return row


def compare(r0, r1, plan, gas, hydraulic_only=False):
    vs = []
    a, b = {}, {}
    for eid, row in r0.items():
        if eid in plan["skip"] or eid not in r1:
            continue
        a[eid] = transform(row, {"flip": set(), "shift": 0.0}, eid)
        b[eid] = transform(r1[eid], plan, eid)
    # in a hydraulic-only run the temperature columns echo start values of the declared ends; they are no results
    skip = ("t_outlet_k", "t_from_k", "t_to_k", "t_k") if hydraulic_only else ()
    diffs = spec.compare_results(a, b, rtol=1e-9, atol=1e-9, gas=gas, skip_cols=skip)
    # series pipes vs sections
    for eid, parts in plan["map"].items():
        o, first, last = r0[eid], r1[parts[0]], r1[parts[-1]]
        if o is None or first is None:
            continue
        for col, src in (("p_from_bar", first), ("p_to_bar", last), ("mdot_from_kg_per_s", first), ("mdot_to_kg_per_s", last),
                         ("t_from_k", first), ("t_to_k", last), ("t_outlet_k", last if o["mdot_from_kg_per_s"] >= 0 else first)):
            if hydraulic_only and col.startswith("t_"):
                continue
            if col in o and col in src:
                va, vb = o[col], src[col]
                if col.startswith("p_") and plan["shift"]:
                    vb = vb - plan["shift"]
                if np.isnan(va) and np.isnan(vb):
                    continue
                if not abs(va - vb) <= 1e-9 * max(1.0, abs(va), abs(vb)):
                    diffs.append((eid, col, va, vb))
        for col in ("lambda", "reynolds", "v_mean_m_per_s"):
            if col in o and abs(o["mdot_from_kg_per_s"]) > 1e-9:
                vb = float(np.mean([r1[p][col] for p in parts]))
                if not abs(o[col] - vb) <= 1e-8 * max(1.0, abs(o[col])):
                    diffs.append((eid, col + "(mean over series pipes)", o[col], vb))
    if plan.get("negload"):
        eid = plan["negload"]
        if r0.get(eid) and r1.get(eid):
            va, vb = r0[eid]["mdot_kg_per_s"], r1[eid]["mdot_kg_per_s"]
            if not (np.isnan(va) and np.isnan(vb)) and not abs(va + vb) <= 1e-12 * max(1.0, abs(va)):
                diffs.append((eid, "mdot_kg_per_s(negated)", va, vb))
    return diffs


def base_cases(tier):
    out = []
    if tier == "quick":
        hs = scopes.h_cases(3, 3, 1, fluids=("water",), with_config=False, with_labels=False, edge_only_above=2) + \
            scopes.h_cases(3, 3, 1, fluids=("lgas",), feeders=(0,), with_config=False, with_labels=False, edge_only_above=1)
    else:
        hs = scopes.h_cases(4, 4, 1, with_config=False, with_labels=False)
    for c in hs:
        out.append(c)
    for topo in c10.TOPOS:
        npipes = len(c10.TOPOS[topo]["pipes"])
        tdims = [((d[0], [2, 1, 3]) if d[0].startswith("sec") else d) for d in c10.dims(topo)
                 if d[0] not in ("numba", "ambient", "mode", "fluid")]
        tdims += [("oos%d" % i, [False, True]) for i in range(npipes)]
        # the deviation bound applies per (fluid, mode): temperatures feed back into the hydraulics only in bidirectional mode
        for fluid, mode in (("water", "sequential"), ("lgas", "sequential"), ("water", "bidirectional"), ("lgas", "bidirectional")):
            if mode == "bidirectional" and tier == "quick" and topo not in ("line", "tee21", "delta", "deadend"):
                continue
            for pt, dev in enum.deviations(tdims + [("start", ["consistent", "mismatch"])], 1):
                pt = dict(pt, mode=mode, numba=False, ambient=293.15, fluid=fluid)
                out.append({"scope": "T", "topo": topo, "point": pt})
    return out


def base_spec(c):
    if c["scope"] == "H":
        sp, opts = scopes.h_spec(c)
        opts["use_numba"] = False
        return sp, opts
    sp, opts = c10.topo_spec(c)
    sp["_mode"] = c["point"].get("mode", "sequential")
    for o in sp["ops"]:
        if o["op"] == "pipe" and c["point"].get("oos" + o["id"][1:], False):
            o["in_service"] = False
    if c["point"].get("start", "consistent") == "consistent":
        # the start temperature of a feeder junction equals its feed temperature (consistent description)
        feeds = {o["junction"]: o["t_k"] for o in sp["ops"] if o["op"] == "ext_grid"}
        for o in sp["ops"]:
            if o["op"] == "junction" and o["id"] in feeds:
                o["tfluid_k"] = feeds[o["id"]]
    return sp, opts


def cases(tier):
    out = []
    for c in base_cases(tier):
        sp, _ = base_spec(c)
        ss = sites(sp)
        for s in ss:
            out.append({"base": c, "sites": [list(s)]})
        if tier == "thorough" and c["scope"] == "T":
            for s1, s2 in itertools.combinations(ss, 2):
                if s1[1] == s2[1]:
                    continue
                out.append({"base": c, "sites": [list(s1), list(s2)]})
    return out


_CACHE = {}


def run_case(case):
    sp0, opts = base_spec(case["base"])
    sp0 = explicit_labels(sp0)
    key = core.jhash(case["base"])
    if key not in _CACHE:
        _CACHE.clear()
        _CACHE[key] = solve(sp0, opts)
    st0, r0, _ = _CACHE[key]
    sp1 = sp0
    plan = {"flip": set(), "skip": set(), "map": {}, "shift": 0.0}
    try:
        for s in case["sites"]:
            sp1, p = rewrite(sp1, tuple(s))
            plan["flip"] ^= p["flip"]
            plan["skip"] |= p["skip"]
            plan["map"].update(p["map"])
            plan["shift"] += p["shift"]
            if p.get("negload"):
                plan["negload"] = p["negload"]
        st1, r1, _ = solve(sp1, opts)
    except KeyError as e:
        return {"status": "site_gone", "violations": []}
    rw = "+".join(s[0] for s in case["sites"])
    vs = []
    gas = sp0["fluid"] != "water"
    if st0 != st1:
        # Newton's start values follow the declared orientation, so a differing convergence verdict is counted, not flagged
        return {"status": "skipped_verdict_differs", "violations": [], "nontrivial": False, "sig": None}
    if False:
        vs.append(viol("verdict_differs", "%s at %s: original %s, rewritten %s; base %s" % (rw, case["sites"], st0, st1,
                       {k: v for k, v in case["base"].items() if k != "point"}), rewrite=rw, gas=gas))
    elif r0 is not None:
        diffs = compare(r0, r1, plan, gas, hydraulic_only=opts.get("mode", "hydraulics") == "hydraulics")
        if diffs:
            d = diffs[0]
            cols = sorted(set(x[1] for x in diffs))
            vs.append(viol("results_differ", "%s at %s: %d cells differ, e.g. %s.%s original %r rewritten %r; cols %s; dev %s" % (
                rw, case["sites"], len(diffs), d[0], d[1], d[2], d[3], cols[:6], case["base"].get("dev") or case["base"].get("topo")),
                rewrite=rw, col=cols[0], gas=gas, scope=case["base"]["scope"], reversal="R1" in rw.split("+"),
                start_mismatch=case["base"].get("point", {}).get("start") == "mismatch"))
    return {"status": "ok" if st1 == "ok" and st0 == "ok" else "skipped_not_returned", "violations": vs,
            "nontrivial": st0 == "ok" and st1 == "ok", "sig": core.jhash([case["base"], case["sites"]]), "info": {"rw_" + rw: 1}}
