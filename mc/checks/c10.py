"""C10 - temperatures obey the pipe cooling law, energy-conserving mixing and fixed feeds.
Scope T: open thermal networks (tees, mesh, several feeders, dead end) and circulation-pump ladders, every point
within d deviations (sections, u, ambient, outer diameter, orientation, mode, numba); oracle = laws re-evaluated
from the result tables."""
import numpy as np
from mc import core, spec, enum
from mc.core import viol
from mc.oracles import thermal
from mc.checks import c01
import pandapipes as pp

ID = "C10"
LEVEL = "exploration"
RULE = ("scope T: 6 open topologies (tee 1->2, tee 2->1 with two feed temperatures, delta mesh, three inflows into one "
        "junction, dead end with zero flow, line) x every point within d deviations of per-pipe {sections 1/3, u 10/0/40, "
        "text_k unset/273.15/285, outer diameter unset/+30 mm, orientation declared/reversed} and global {mode sequential/"
        "bidirectional, numba, ambient option}; plus circulation-pump ladders (1-3 rungs, consumer / flow control + "
        "exchanger / exchanger rungs, loads, ext grids) in both modes. Non-trivial = returned with >=1 flowing pipe "
        "section checked; distinct = distinct rounded temperature signature.")
ASSUMPTIONS = ["tight solver options (tol_T 1e-10): laws hold to 1e-7 K",
               "mean heat capacity (cp(T_a)+cp(T_b))/2 for branch and mixing terms, as the statement says",
               "zero-flow branches are excluded (documented to take the ambient value)"]
MIN_OK_FRACTION = 0.5

TOPOS = {
    "line": {"n": 3, "pipes": [(0, 1), (1, 2)], "feed": {0: 360.0}, "sinks": {2: 0.3}},
    "tee12": {"n": 4, "pipes": [(0, 1), (1, 2), (1, 3)], "feed": {0: 360.0}, "sinks": {2: 0.3, 3: 0.2}},
    "tee21": {"n": 4, "pipes": [(0, 2), (1, 2), (2, 3)], "feed": {0: 365.0, 1: 325.0}, "sinks": {3: 0.5}},
    "delta": {"n": 3, "pipes": [(0, 1), (0, 2), (1, 2)], "feed": {0: 355.0}, "sinks": {1: 0.1, 2: 0.4}},
    "three_in": {"n": 5, "pipes": [(0, 3), (1, 3), (2, 3), (3, 4)], "feed": {0: 370.0, 1: 340.0, 2: 310.0}, "sinks": {4: 0.6}},
    "deadend": {"n": 4, "pipes": [(0, 1), (1, 2), (1, 3)], "feed": {0: 350.0}, "sinks": {2: 0.3}},
    "parallel": {"n": 4, "pipes": [(0, 1), (1, 2), (1, 2), (2, 3)], "feed": {0: 358.0}, "sinks": {3: 0.4}},
    # the feeding grid fixes the pressure only, a temperature-fixing grid downstream takes fluid out
    "absorb": {"n": 3, "pipes": [(0, 1), (1, 2)], "feed": {0: 360.0, 2: 300.0}, "feed_p": {0: 5.0, 2: 4.5},
               "feed_type": {0: "p", 2: "pt"}, "sinks": {1: 0.1}},
}


def dims(topo):
    d = []
    for i in range(len(TOPOS[topo]["pipes"])):
        d.append(("sec%d" % i, [1, 3]))
        d.append(("u%d" % i, [10.0, 0.0, 40.0]))
        d.append(("text%d" % i, [None, 273.15, 285.0]))
        d.append(("do%d" % i, [None, 30.0]))
        d.append(("rev%d" % i, [False, True]))
    d.append(("fluid", ["water", "lgas"]))
    d.append(("mode", ["sequential", "bidirectional", "heat"]))
    d.append(("numba", [False, True]))
    d.append(("ambient", [293.15, 283.0]))
    return d


def warmup():
    spec.warmup_numba()


def cases(tier):
    out = []
    d = 2 if tier == "quick" else 3
    for topo in TOPOS:
        dd = d if (tier == "thorough" or topo in ("tee21", "delta", "tee12")) else 1
        if tier == "thorough" and topo in ("three_in",):
            dd = 2
        for pt, dev in enum.deviations(dims(topo), dd):
            out.append({"scope": "T", "topo": topo, "point": pt})
    for lc in c01.loop_cases():
        for mode in ("sequential", "bidirectional"):
            c = dict(lc)
            c["mode"] = mode
            out.append(c)
    return out


def topo_spec(c):
    tp = TOPOS[c["topo"]]
    pt = c["point"]
    ops = [{"op": "junction", "id": "j%d" % i, "pn_bar": 5.0, "tfluid_k": 330.0} for i in range(tp["n"])]
    for k, (j, T) in enumerate(tp["feed"].items()):
        ops.append({"op": "ext_grid", "id": "eg%d" % k, "junction": "j%d" % j, "p_bar": tp.get("feed_p", {}).get(j, 5.0), "t_k": T,
                    "type": tp.get("feed_type", {}).get(j, "pt")})
    for i, (a, b) in enumerate(tp["pipes"]):
        fa, fb = (b, a) if pt["rev%d" % i] else (a, b)
        dmm = 50.0 + 5 * i
        ops.append({"op": "pipe", "id": "p%d" % i, "from": "j%d" % fa, "to": "j%d" % fb, "length_km": 0.2 + 0.1 * i, "d_mm": dmm,
                    "sections": pt["sec%d" % i], "u": pt["u%d" % i], "text_k": pt["text%d" % i],
                    "do_mm": None if pt["do%d" % i] is None else dmm + pt["do%d" % i]})
    fluid = pt.get("fluid", "water")
    for j, m in tp["sinks"].items():
        ops.append({"op": "sink", "id": "s%d" % j, "junction": "j%d" % j, "mdot": m * (0.04 if fluid != "water" else 1.0)})
    return {"fluid": fluid, "ops": ops}, {"mode": pt["mode"], "use_numba": pt["numba"], "ambient_temperature": pt["ambient"]}


def run_case(case):
    if case["scope"] == "T":
        sp, opts = topo_spec(case)
        heat_sources = False
    else:
        sp, opts = c01.loop_spec(case)
        opts = {"mode": case["mode"], "use_numba": False}
        heat_sources = True
    try:
        net, idmap = spec.build(sp)
    except Exception as e:
        return {"status": "build_error:" + type(e).__name__, "violations": []}
    kw = dict(spec.TIGHT)
    kw.update(opts)
    try:
        if kw.get("mode") == "heat":
            # thermal-only calculation started from a stored hydraulic solution
            from pandapipes.idx_node import PINIT
            from pandapipes.idx_branch import MDOTINIT
            kh = dict(kw, mode="hydraulics")
            pp.pipeflow(net, **kh)
            u = np.concatenate((net._pit["node"][:, PINIT], net._pit["branch"][:, MDOTINIT]))
            hyd = {t: net[t].copy() for t in net.keys() if t.startswith("res_") and hasattr(net[t], "columns")}
            pp.pipeflow(net, sol_vec=u, **kw)
            # the thermal-only run reports temperatures; flows come from the stored hydraulic run
            for t, df in hyd.items():
                for c in df.columns:
                    if not c.startswith("t_") and c in net[t].columns and net[t][c].isna().all():
                        net[t][c] = df[c]
        else:
            pp.pipeflow(net, **kw)
    except Exception as e:
        return {"status": "raised:" + type(e).__name__, "violations": []}
    vs, info = thermal.check_thermal(net, kw.get("ambient_temperature", 293.15), heat_sources=heat_sources)
    for v in vs:
        v["tags"]["topo"] = case.get("topo", "loop")
    sig = np.round(net.res_junction.t_k.values, 5).tolist()
    return {"status": "ok", "violations": vs, "nontrivial": any(k.startswith("cooling_law") for k in info),
            "sig": core.jhash(sig), "info": info}
