"""C03 - prescribed pressures, flows, lifts and ratios are met exactly.
Enumerated: scope H (d<=1), circulation-pump loops, and dedicated set-point lattices (pumps, compressors,
pressure / flow controllers, several ext grids per junction); oracle recomputes every prescribed value
from the element tables and compares it with the res_* tables."""
import itertools
import numpy as np
from mc import core, spec, scopes, enum
from mc.core import viol
from mc.oracles import momentum as mo
from mc.checks import c01
import pandapipes as pp

ID = "C03"
LEVEL = "exploration"
RULE = ("scope H (all skeletons n<=3(4), every feeder, water/gas, d<=1 over the component alphabet incl. interleaved "
        "ext grids, controllers, pumps, compressors), circulation-pump ladders (1-3 rungs, mass/pressure pump, loads, "
        "ext grids), and set-point lattices: pump std types P1-P3 x temperature {283,330,360 K} x forward/reverse x "
        "height difference x out-of-service sibling pump; compressor ratios x forward/reverse; 1-2 pressure controllers "
        "(remote controlled junction); flow controllers in series / mesh / both orientations; 1-3 ext grids per junction "
        "in all table orders. Non-trivial = returned and >=1 prescribed value checked; distinct = distinct set-point signature.")
ASSUMPTIONS = ["tight solver options: set-points are reproduced to 1e-9 (identity rows of the linear system)",
               "pump curve = numpy polynomial of the std type's reg_par evaluated by the harness at reported vdot*3600"]
MIN_OK_FRACTION = 0.4
TOL = 1e-9


def warmup():
    spec.warmup_numba()


def lattice_cases(tier):
    out = []
    # pumps
    for st in ("P1", "P2", "P3"):
        for T in (283.15, 330.0, 360.0):
            for direction in ("forward", "reverse"):
                for dh in (0.0, 12.0):
                    for sibling in (None, "oos_before", "oos_after", "other_type"):
                        out.append({"scope": "pump", "std_type": st, "T": T, "dir": direction, "dh": dh, "sibling": sibling})
    # compressors
    for ratio in (1.0, 1.3, 2.0):
        for direction in ("forward", "reverse"):
            for fluid in ("lgas", "hydrogen"):
                for h in (0.0, 50.0):
                    out.append({"scope": "compressor", "ratio": ratio, "dir": direction, "fluid": fluid, "h": h})
    # pressure controllers
    for fluid in ("water", "lgas"):
        for n in (1, 2):
            for remote in (False, True):
                for act in itertools.product([True, False], repeat=n):
                    for ins in itertools.product([True, False], repeat=n):
                        out.append({"scope": "pc", "fluid": fluid, "n": n, "remote": remote, "active": list(act),
                                    "ins": list(ins)})
    # two parallel controllers regulating the same junction (working / stand-by line), every service pattern and table order
    for fluid in ("water", "lgas"):
        for order in ((0, 1), (1, 0)):
            for ins in itertools.product([True, False], repeat=2):
                for act in itertools.product([True, False], repeat=2):
                    if not any(i and a for i, a in zip(ins, act)):
                        continue
                    out.append({"scope": "pc_parallel", "fluid": fluid, "order": list(order), "ins": list(ins), "active": list(act)})
    # flow controllers
    for fluid in ("water", "lgas"):
        for topo in ("series", "mesh", "reversed", "parallel"):
            for act in itertools.product([True, False], repeat=2):
                for sign in (1.0, -1.0):
                    out.append({"scope": "fc", "fluid": fluid, "topo": topo, "active": list(act), "sign": sign})
    # ext grids: all table orders of up to 4 grids over 2 junctions, mixed service and types
    grids = [("j0", 5.0, True, "pt"), ("j0", 5.4, True, "p"), ("j3", 5.1, True, "pt"), ("j0", 6.0, False, "pt"),
             ("j3", 4.9, True, "t")]
    for k in (2, 3, 4, 5):
        for combo in itertools.combinations(range(len(grids)), k):
            if not any(grids[i][2] and grids[i][3] != "t" for i in combo):
                continue
            perms = itertools.permutations(combo) if (tier == "thorough" or k <= 3) else [combo, tuple(reversed(combo)),
                                                                                         combo[1:] + combo[:1]]
            for perm in perms:
                for fluid in ("water", "lgas"):
                    out.append({"scope": "eg", "fluid": fluid, "grids": [list(grids[i]) for i in perm]})
    return out


def lattice_spec(c):
    s = c["scope"]
    if s == "pump":
        T = c["T"]
        ops = [{"op": "junction", "id": "j0", "pn_bar": 3.0, "tfluid_k": T},
               {"op": "junction", "id": "j1", "pn_bar": 3.0, "tfluid_k": T, "height_m": c["dh"]},
               {"op": "junction", "id": "j2", "pn_bar": 3.0, "tfluid_k": T, "height_m": c["dh"]},
               {"op": "ext_grid", "id": "eg", "junction": "j0", "p_bar": 3.0, "t_k": T}]
        sib = c["sibling"]
        if sib == "oos_before":
            ops.append({"op": "pump", "id": "pux", "from": "j0", "to": "j1", "std_type": "P3" if c["std_type"] != "P3" else "P1",
                        "in_service": False})
        ops.append({"op": "pump", "id": "pu", "from": "j0", "to": "j1", "std_type": c["std_type"]})
        if sib == "oos_after":
            ops.append({"op": "pump", "id": "pux", "from": "j0", "to": "j1", "std_type": "P3" if c["std_type"] != "P3" else "P1",
                        "in_service": False})
        if sib == "other_type":
            ops.append({"op": "pump", "id": "pux", "from": "j1", "to": "j2", "std_type": "P2" if c["std_type"] != "P2" else "P1"})
        else:
            ops.append({"op": "pipe", "id": "p1", "from": "j1", "to": "j2", "length_km": 0.1, "d_mm": 80.0})
        m = {"P1": 4.0, "P2": 6.0, "P3": 8.0}[c["std_type"]]
        if c["dir"] == "forward":
            ops.append({"op": "sink", "id": "ld", "junction": "j2", "mdot": m})
        else:
            ops.append({"op": "source", "id": "ld", "junction": "j2", "mdot": m * 0.5})
        return {"fluid": "water", "ops": ops}, {}
    if s == "compressor":
        ops = [{"op": "junction", "id": "j0", "pn_bar": 5.0, "tfluid_k": 300.0, "height_m": c["h"]},
               {"op": "junction", "id": "j1", "pn_bar": 5.0, "tfluid_k": 300.0, "height_m": c["h"] / 2},
               {"op": "junction", "id": "j2", "pn_bar": 5.0, "tfluid_k": 300.0},
               {"op": "ext_grid", "id": "eg", "junction": "j0", "p_bar": 5.0, "t_k": 300.0},
               {"op": "compressor", "id": "co", "from": "j0", "to": "j1", "ratio": c["ratio"]},
               {"op": "pipe", "id": "p1", "from": "j1", "to": "j2", "length_km": 0.3, "d_mm": 60.0}]
        if c["dir"] == "forward":
            ops.append({"op": "sink", "id": "ld", "junction": "j2", "mdot": 0.01})
        else:
            ops.append({"op": "source", "id": "ld", "junction": "j2", "mdot": 0.005})
        return {"fluid": c["fluid"], "ops": ops}, {}
    if s == "pc":
        gas = c["fluid"] != "water"
        m = 0.005 if gas else 0.2
        ops = [{"op": "junction", "id": "j%d" % i, "pn_bar": 6.0, "tfluid_k": 300.0} for i in range(6)]
        ops += [{"op": "ext_grid", "id": "eg", "junction": "j0", "p_bar": 6.0, "t_k": 300.0},
                {"op": "pipe", "id": "p0", "from": "j0", "to": "j1", "length_km": 0.1, "d_mm": 60.0},
                {"op": "press_control", "id": "pc0", "from": "j1", "to": "j2", "controlled": "j3" if c["remote"] else "j2",
                 "p_bar": 4.5, "control_active": c["active"][0], "in_service": c["ins"][0], "check_controllability": False},
                {"op": "pipe", "id": "p1", "from": "j2", "to": "j3", "length_km": 0.2, "d_mm": 50.0},
                {"op": "sink", "id": "s3", "junction": "j3", "mdot": m}]
        if c["n"] == 2:
            ops += [{"op": "press_control", "id": "pc1", "from": "j3", "to": "j4", "controlled": "j5" if c["remote"] else "j4",
                     "p_bar": 3.0, "control_active": c["active"][1], "in_service": c["ins"][1], "check_controllability": False},
                    {"op": "pipe", "id": "p2", "from": "j4", "to": "j5", "length_km": 0.2, "d_mm": 50.0},
                    {"op": "sink", "id": "s5", "junction": "j5", "mdot": m * 0.5}]
        return {"fluid": c["fluid"], "ops": ops}, {}
    if s == "pc_parallel":
        gas = c["fluid"] != "water"
        m = 0.005 if gas else 0.2
        ops = [{"op": "junction", "id": "j%d" % i, "pn_bar": 6.0, "tfluid_k": 300.0} for i in range(4)]
        ops += [{"op": "ext_grid", "id": "eg", "junction": "j0", "p_bar": 8.0, "t_k": 300.0},
                {"op": "pipe", "id": "p0", "from": "j0", "to": "j1", "length_km": 0.1, "d_mm": 60.0}]
        pcs = [{"op": "press_control", "id": "pc%d" % i, "from": "j1", "to": "j2", "controlled": "j2", "p_bar": [3.0, 2.6][i],
                "control_active": c["active"][i], "in_service": c["ins"][i], "check_controllability": False} for i in range(2)]
        ops += [pcs[i] for i in c["order"]]
        ops += [{"op": "pipe", "id": "p1", "from": "j2", "to": "j3", "length_km": 0.2, "d_mm": 50.0},
                {"op": "sink", "id": "s3", "junction": "j3", "mdot": m}]
        return {"fluid": c["fluid"], "ops": ops}, {}
    if s == "fc":
        gas = c["fluid"] != "water"
        m = (0.004 if gas else 0.15) * c["sign"]
        ops = [{"op": "junction", "id": "j%d" % i, "pn_bar": 5.0, "tfluid_k": 300.0} for i in range(5)]
        ops += [{"op": "ext_grid", "id": "eg", "junction": "j0", "p_bar": 5.0, "t_k": 300.0},
                {"op": "pipe", "id": "p0", "from": "j0", "to": "j1", "length_km": 0.1, "d_mm": 60.0}]
        t = c["topo"]
        a0, a1 = c["active"]
        if t == "series":
            ops += [{"op": "flow_control", "id": "f0", "from": "j1", "to": "j2", "mdot": m, "control_active": a0},
                    {"op": "flow_control", "id": "f1", "from": "j2", "to": "j3", "mdot": m, "control_active": a1},
                    {"op": "pipe", "id": "p1", "from": "j3", "to": "j4", "length_km": 0.1, "d_mm": 60.0},
                    {"op": "ext_grid", "id": "eg1", "junction": "j4", "p_bar": 4.5, "t_k": 300.0}]
        elif t == "mesh":
            ops += [{"op": "flow_control", "id": "f0", "from": "j1", "to": "j2", "mdot": m, "control_active": a0},
                    {"op": "pipe", "id": "p1", "from": "j1", "to": "j3", "length_km": 0.3, "d_mm": 40.0},
                    {"op": "flow_control", "id": "f1", "from": "j2", "to": "j3", "mdot": m * 0.4, "control_active": a1},
                    {"op": "pipe", "id": "p2", "from": "j3", "to": "j4", "length_km": 0.1, "d_mm": 60.0},
                    {"op": "sink", "id": "s2", "junction": "j2", "mdot": abs(m) * 0.6},
                    {"op": "ext_grid", "id": "eg1", "junction": "j4", "p_bar": 4.5, "t_k": 300.0}]
        elif t == "reversed":
            ops += [{"op": "flow_control", "id": "f0", "from": "j2", "to": "j1", "mdot": -m, "control_active": a0},
                    {"op": "flow_control", "id": "f1", "from": "j2", "to": "j3", "mdot": m, "control_active": a1},
                    {"op": "pipe", "id": "p1", "from": "j3", "to": "j4", "length_km": 0.1, "d_mm": 60.0},
                    {"op": "ext_grid", "id": "eg1", "junction": "j4", "p_bar": 4.5, "t_k": 300.0}]
        else:
            ops += [{"op": "flow_control", "id": "f0", "from": "j1", "to": "j2", "mdot": m, "control_active": a0},
                    {"op": "flow_control", "id": "f1", "from": "j1", "to": "j2", "mdot": m * 0.5, "control_active": a1},
                    {"op": "pipe", "id": "p1", "from": "j2", "to": "j3", "length_km": 0.1, "d_mm": 60.0},
                    {"op": "pipe", "id": "p2", "from": "j3", "to": "j4", "length_km": 0.1, "d_mm": 60.0},
                    {"op": "ext_grid", "id": "eg1", "junction": "j4", "p_bar": 4.5, "t_k": 300.0}]
        return {"fluid": c["fluid"], "ops": ops}, {}
    if s == "eg":
        gas = c["fluid"] != "water"
        m = 0.004 if gas else 0.2
        ops = [{"op": "junction", "id": "j%d" % i, "pn_bar": 5.0, "tfluid_k": 300.0} for i in range(4)]
        for i, (j, p, ins, typ) in enumerate(c["grids"]):
            ops.append({"op": "ext_grid", "id": "eg%d" % i, "junction": j, "p_bar": p, "t_k": 300.0 + i, "in_service": ins,
                        "type": typ})
        ops += [{"op": "pipe", "id": "p0", "from": "j0", "to": "j1", "length_km": 0.2, "d_mm": 60.0},
                {"op": "pipe", "id": "p1", "from": "j1", "to": "j2", "length_km": 0.2, "d_mm": 60.0},
                {"op": "pipe", "id": "p2", "from": "j2", "to": "j3", "length_km": 0.2, "d_mm": 60.0},
                {"op": "sink", "id": "s1", "junction": "j1", "mdot": m}, {"op": "sink", "id": "s2", "junction": "j2", "mdot": m * 0.5}]
        return {"fluid": c["fluid"], "ops": ops}, {}
    raise KeyError(s)


def cases(tier):
    if tier == "quick":
        hs = scopes.h_cases(3, 3, 1)
    else:
        hs = scopes.h_cases(4, 4, 1) + scopes.h_cases(3, 3, 2, with_labels=False)
    return hs + c01.loop_cases() + lattice_cases(tier) + transient_cases()


def transient_cases():
    """the same loops and a two-feeder tree, calculated as 3 consecutive transient time steps (the internal tables of
    the previous step are re-used); start pressures differ from the prescribed ones"""
    out = []
    for lc in c01.loop_cases():
        if lc["oos"] is None and lc["load"] in (None, "sink"):
            out.append(dict(lc, scope="L", transient=True))
    for fluid in ("water",):
        for grids in ([["j0", 5.0, True, "pt"], ["j3", 5.1, True, "pt"]], [["j0", 5.0, True, "pt"], ["j0", 5.4, True, "pt"], ["j3", 5.1, True, "pt"]]):
            out.append({"scope": "eg", "fluid": fluid, "grids": grids, "transient": True})
    return out


def run_case(case):
    if case["scope"] == "H":
        sp, opts = scopes.h_spec(case)
    elif case["scope"] == "L":
        sp, opts = c01.loop_spec(case)
    else:
        sp, opts = lattice_spec(case)
    try:
        net, idmap = spec.build(sp)
    except Exception as e:
        return {"status": "build_error:" + type(e).__name__, "violations": []}
    kw = dict(spec.TIGHT)
    kw.update(opts)
    kw.setdefault("use_numba", False)
    if case.get("transient"):
        net.junction["pn_bar"] = 1.0     # start pressures far from the prescribed ones
        kw["mode"] = "sequential"
        allv, info, sig = [], {}, []
        for step in range(3):
            try:
                # the residual of the transient heat balance does not get below ~1e-7 W: tol_res as tight as for the
                # steady calculations would only turn every case into "not converged"
                pp.pipeflow(net, transient=True, dt=60.0, simulation_time_step=step, **dict(kw, tol_res=1e-6))
            except Exception as e:
                return {"status": "raised:" + type(e).__name__, "violations": allv}
            r = check_net(net)
            for v in r["violations"]:
                v["tags"]["transient_step"] = ">0" if step else "0"
                v["detail"] = "transient step %d: %s" % (step, v["detail"])
            allv += r["violations"]
            for k_, n_ in r["info"].items():
                info["transient_" + k_] = info.get("transient_" + k_, 0) + n_
            sig.append(r["sig"])
        return {"status": "ok", "violations": allv, "nontrivial": True, "sig": core.jhash(sig), "info": info}
    try:
        pp.pipeflow(net, **kw)
    except Exception as e:
        return {"status": "raised:" + type(e).__name__, "violations": []}
    return check_net(net)


def near(a, b, tol=TOL):
    return abs(a - b) <= tol * max(1.0, abs(a), abs(b))


def check_net(net):
    vs = []
    info = {}
    sig = []
    pj = net.res_junction.p_bar
    hj = net.junction.height_m

    def cnt(k):
        info[k] = info.get(k, 0) + 1

    # fixed pressures: mean of all in-service pressure-fixing elements of the junction
    fixed = {}
    if len(net.ext_grid):
        for idx, r in net.ext_grid.iterrows():
            if r.in_service and "p" in r.type:
                fixed.setdefault(r.junction, []).append(r.p_bar)
    for t in ("circ_pump_mass", "circ_pump_pressure"):
        if t in net and len(net[t]):
            for idx, r in net[t].iterrows():
                if r.in_service:
                    fixed.setdefault(r.flow_junction, []).append(r.p_flow_bar)
    for j, vals in fixed.items():
        if np.isnan(pj[j]):
            continue
        cnt("fixed_pressure_%d" % min(len(vals), 3))
        sig.append(("p", round(float(np.mean(vals)), 6)))
        if not near(pj[j], np.mean(vals), 1e-10):
            vs.append(viol("fixed_pressure", "junction %s p_bar %.12g, mean of its %d in-service fixed pressures %.12g (%s)" % (
                j, pj[j], len(vals), np.mean(vals), vals), n=min(len(vals), 3)))
    # circulation pumps
    if "circ_pump_mass" in net and len(net.circ_pump_mass):
        for idx, r in net.circ_pump_mass.iterrows():
            m = net.res_circ_pump_mass.at[idx, "mdot_from_kg_per_s"]
            if r.in_service and not np.isnan(m):
                cnt("circ_mass")
                if not near(m, r.mdot_flow_kg_per_s, 1e-10):
                    vs.append(viol("circ_pump_mass_flow", "pump %s carries %.12g, set %.12g" % (idx, m, r.mdot_flow_kg_per_s)))
    if "circ_pump_pressure" in net and len(net.circ_pump_pressure):
        for idx, r in net.circ_pump_pressure.iterrows():
            rr = net.res_circ_pump_pressure.loc[idx]
            if r.in_service and not np.isnan(rr.p_from_bar):
                cnt("circ_pressure")
                if not near(rr.p_to_bar - rr.p_from_bar, r.plift_bar, 1e-9):
                    vs.append(viol("circ_pump_lift", "pump %s lifts %.12g, set %.12g" % (idx, rr.p_to_bar - rr.p_from_bar, r.plift_bar)))
    # pressure controllers
    if "press_control" in net and len(net.press_control):
        for idx, r in net.press_control.iterrows():
            rr = net.res_press_control.loc[idx]
            fixed_elsewhere = len(net.ext_grid) and bool(((net.ext_grid.junction == r.controlled_junction) & net.ext_grid.in_service
                                                          & net.ext_grid.type.isin(["p", "pt"])).any())
            if fixed_elsewhere and r.in_service and r.control_active:
                # two contradicting set-points for one junction (ext grid and controller): not a valid description
                cnt("press_control_conflicts_with_ext_grid")
            elif r.in_service and r.control_active and not np.isnan(rr.mdot_from_kg_per_s):
                cnt("press_control")
                sig.append(("pc", r.controlled_p_bar))
                if not near(pj[r.controlled_junction], r.controlled_p_bar, 1e-10):
                    vs.append(viol("controlled_pressure", "controller %s: junction %s has %.12g, controlled %.12g" % (
                        idx, r.controlled_junction, pj[r.controlled_junction], r.controlled_p_bar)))
            if r.in_service and not np.isnan(rr.mdot_from_kg_per_s):
                if not near(rr.deltap_bar, rr.p_to_bar - rr.p_from_bar, 1e-12):
                    vs.append(viol("press_control_deltap", "controller %s deltap %.12g vs p_to-p_from %.12g" % (
                        idx, rr.deltap_bar, rr.p_to_bar - rr.p_from_bar)))
    # flow controllers
    if "flow_control" in net and len(net.flow_control):
        for idx, r in net.flow_control.iterrows():
            m = net.res_flow_control.at[idx, "mdot_from_kg_per_s"]
            if r.in_service and r.control_active and not np.isnan(m):
                cnt("flow_control")
                sig.append(("fc", r.controlled_mdot_kg_per_s))
                if not near(m, r.controlled_mdot_kg_per_s, 1e-10):
                    vs.append(viol("controlled_flow", "flow controller %s carries %.12g, set %.12g" % (idx, m, r.controlled_mdot_kg_per_s)))
    # compressors
    if "compressor" in net and len(net.compressor):
        for idx, r in net.compressor.iterrows():
            rr = net.res_compressor.loc[idx]
            if not r.in_service or np.isnan(rr.mdot_from_kg_per_s):
                continue
            pa = rr.p_from_bar + mo.pamb(hj[r.from_junction])
            pb = rr.p_to_bar + mo.pamb(hj[r.to_junction])
            if rr.mdot_from_kg_per_s > 1e-9:
                cnt("compressor_forward")
                sig.append(("co", r.pressure_ratio))
                dh = hj[r.from_junction] - hj[r.to_junction]
                ok = near(pb / pa, r.pressure_ratio, 1e-9)
                if not ok and dh != 0:
                    # junctions at different heights: the hydrostatic term of the height difference acts on top of the
                    # ratio (as for every branch element); mean real density of the two ends
                    fl = net.fluid
                    rn = float(fl.get_density(mo.TN))
                    ra = rn * mo.TN * pa / (net.junction.tfluid_k[r.from_junction] * mo.PN * float(fl.get_compressibility(pa)))
                    rb = rn * mo.TN * pb / (net.junction.tfluid_k[r.to_junction] * mo.PN * float(fl.get_compressibility(pb)))
                    for rho in ((ra + rb) / 2, ra, rb):
                        if near(pb - rho * mo.G * dh / 1e5, r.pressure_ratio * pa, 1e-9):
                            ok = True
                if not ok:
                    vs.append(viol("compressor_ratio", "compressor %s: absolute ratio %.12g, set %.12g" % (idx, pb / pa, r.pressure_ratio),
                                   heights=bool(dh)))
            elif rr.mdot_from_kg_per_s < -1e-9:
                cnt("compressor_reverse")
    # pumps
    if "pump" in net and len(net.pump):
        fluid = net.fluid
        for idx, r in net.pump.iterrows():
            rr = net.res_pump.loc[idx]
            if not r.in_service or np.isnan(rr.mdot_from_kg_per_s):
                continue
            st = net.std_types["pump"][r.std_type]
            vcol = "vdot_m3_per_s" if "vdot_m3_per_s" in rr else "vdot_norm_m3_per_s"
            vdot = rr[vcol]
            if fluid.is_gas:
                continue  # reported volume flow is a norm volume flow for gases; lift clause checked for liquids
            n = np.arange(len(st.reg_par), 0, -1)
            curve = float(max(0.0, np.sum(np.asarray(st.reg_par) * (vdot * 3600) ** (n - 1)))) if vdot >= 0 else 0.0
            key = "pump_forward" if vdot >= 0 else "pump_reverse"
            cnt(key)
            sig.append(("pu", r.std_type, round(float(vdot), 6)))
            if not near(rr.deltap_bar, curve, 1e-8):
                tk = net.junction.tfluid_k[r.from_junction]
                vs.append(viol("pump_curve", "pump %s (%s, %.2f K): deltap_bar %.10g, curve at reported vdot %.10g" % (
                    idx, r.std_type, tk, rr.deltap_bar, curve), direction=key, hot=bool(tk > 300)))
            # lift is what separates the two junction pressures (plus hydrostatic term of the height difference)
            rho = float(fluid.get_density(net.junction.tfluid_k[r.from_junction]))
            dh = hj[r.from_junction] - hj[r.to_junction]
            pa = rr.p_from_bar + mo.pamb(hj[r.from_junction])
            pb = rr.p_to_bar + mo.pamb(hj[r.to_junction])
            if not near(pb - pa, rr.deltap_bar + rho * mo.G * dh / 1e5, 1e-8):
                vs.append(viol("pump_lift_applied", "pump %s: p_to-p_from (abs) %.10g vs deltap+hydrostatic %.10g" % (
                    idx, pb - pa, rr.deltap_bar + rho * mo.G * dh / 1e5)))
    # sinks / sources / storages
    for t in ("sink", "source", "mass_storage"):
        if t in net and len(net[t]):
            for idx, r in net[t].iterrows():
                got = net["res_" + t].at[idx, "mdot_kg_per_s"]
                if r.in_service and not np.isnan(pj[r.junction]):
                    cnt("load_" + t)
                    want = r.mdot_kg_per_s * r.scaling
                    if np.isnan(want):
                        continue
                    if not near(got, want, 1e-12):
                        vs.append(viol("load_value", "%s %s reports %.12g, mdot*scaling %.12g" % (t, idx, got, want), table=t))
    return {"status": "ok", "violations": vs, "nontrivial": bool(info), "sig": core.jhash(sorted(map(str, sig))), "info": info}
