"""C08 - the solution is independent of initial guesses and of the damping strategy.
For every base network all start-value assignments from an alphabet (per-junction pn_bar / tfluid_k patterns)
x damping strategy are solved; any two converged runs must agree."""
import copy
import itertools
import numpy as np
from mc import core, spec, scopes, enum
from mc.core import viol
from mc.checks import c10, c11
import pandapipes as pp

ID = "C08"
CASE_WEIGHT = 12   # relative cost of one case (pool sizing)
LEVEL = "exploration"
RULE = ("bases: scope H (skeletons n<=3/4, every feeder, water and gas, d<=1 over branch kinds and heights; gas bases with "
        "200 m height steps) for pn_bar; scope T topologies (d<=1) and consumer ladders (all mode assignments to <=2 rungs) "
        "for tfluid_k. Per base ALL assignments {0.5,1,2,16 (pn) / 285,330,360,395 K (T)} x pattern {uniform, alternating, "
        "ascending} x nonlinear_method {constant, automatic}; thermal start values are compared where they are pure start "
        "values (temperatures, flows, duties in sequential mode; everything in bidirectional mode). Non-trivial = >=2 "
        "converged runs with different start values; distinct = distinct base.")
ASSUMPTIONS = ["tight solver options; converged runs must agree within 1e-7 relative (>= 10x the tolerances in force)",
               "pairs where one side does not converge are counted, not flagged (statement is conditional on convergence)",
               "in sequential mode pressures legitimately depend on tfluid_k (fluid properties of the hydraulic stage), "
               "so only temperatures, mass flows and duties are compared there"]
MIN_OK_FRACTION = 0.4


def warmup():
    spec.warmup_numba()


def cases(tier):
    out = []
    if tier == "quick":
        hs = scopes.h_cases(3, 3, 1, with_config=False, with_labels=False, edge_only_above=1)
    else:
        hs = scopes.h_cases(4, 4, 1, with_config=False, with_labels=False)
    for c in hs:
        # pumps / compressors switch their lift off for reverse flow: inside a mesh the hydraulic solution is not unique
        # (recirculation), so they are only kept where the skeleton is a tree (statement: converged runs of one physical
        # network; mechanism: uniqueness for monotone loss laws)
        if len(c["edges"]) >= c["n"] and any(v in ("pump", "compressor") for k, v in c["point"].items() if k.startswith("e")):
            continue
        # labels that differ from the table position (reversed 0..n-1): a start value written by label instead of through the
        # lookup lands on another junction
        c = dict(c, point=dict(c["point"], labels="rev"))
        out.append({"kind": "pn", "base": c, "steep": False, "tier": tier})
        if c["fluid"] != "water" and not c["dev"]:
            out.append({"kind": "pn", "base": c, "steep": True, "tier": tier})
    for topo in c10.TOPOS:
        for pt, dev in enum.deviations([d for d in c10.dims(topo) if d[0] not in ("numba", "ambient")], 1):
            # sequential mode: tfluid_k is a pure start value only where the flows follow from the mass balance alone
            if pt["mode"] == "sequential" and topo not in ("line", "tee12", "deadend"):
                continue
            out.append({"kind": "T", "base": {"scope": "T", "topo": topo, "point": dict(pt, numba=False, ambient=293.15)}, "tier": tier})
    # networks with a part that is calculated hydraulically but has no temperature source (p-type feeder)
    from mc.checks import c04
    for mode in ("sequential", "bidirectional"):
        # patterns that the solver returns and that leave a thermally unsupplied part; in sequential mode the hydraulic
        # step evaluates the density at tfluid_k, so only patterns whose flows are fixed by the sinks (one feeder per
        # connected part) keep tfluid_k a pure start value there - pattern 32 (two connected feeders) is bidirectional only
        for number in ((9, 24, 66, 80) if mode == "sequential" else (9, 24, 32, 66, 80)):
            out.append({"kind": "T", "base": {"scope": "E", "mode": mode, "number": number}, "tier": tier})
    for lc in c11.cases("quick"):
        if lc["pump"] == "circ_pump_pressure" and lc["u"] == 10.0:
            if lc["mode"] == "sequential" and any(k.startswith("QE") for k in lc["kinds"]):
                continue  # heat-defined consumers take their mass flow from the start temperatures in sequential mode
            out.append({"kind": "T", "base": dict(lc, scope="ladder"), "tier": tier})
    return out


PATTERNS = ["uniform", "alternating", "ascending"]


def assign(vals_alphabet, pattern, n, base):
    out = []
    for v in vals_alphabet:
        if pattern == "uniform":
            out.append([v] * n)
        elif pattern == "alternating":
            out.append([v if i % 2 == 0 else base for i in range(n)])
        else:
            out.append([base + (v - base) * i / max(1, n - 1) for i in range(n)])
    return out


def run_case(case):
    b = case["base"]
    if case["kind"] == "pn":
        sp, opts = scopes.h_spec(b)
        opts["use_numba"] = False
        if case.get("steep"):
            k = 0
            for o in sp["ops"]:
                if o["op"] == "junction":
                    o["height_m"] = 200.0 * k
                    k += 1
        col, alphabet, base = "pn_bar", [2.5, 10.0, 80.0], 5.0
        modes = [opts]
    else:
        if b["scope"] == "E":
            from mc.checks import c04
            sp0, flags, opts = c04.superset_E(b["mode"])
            sp, _ = c04.apply_flags(sp0, flags, len(flags), b["number"])
            opts = {"mode": b["mode"], "use_numba": False}
        elif b["scope"] == "T":
            sp, opts = c10.topo_spec(b)
        else:
            sp = c11.ladder_spec(b)
            opts = {"mode": b["mode"], "use_numba": False}
        col, alphabet, base = "tfluid_k", [285.0, 360.0, 395.0], 330.0
        modes = [opts]
    juncs = [o for o in sp["ops"] if o["op"] == "junction"]
    n = len(juncs)
    variants = [[base] * n]
    if case.get("tier", "quick") == "quick":
        alphabet = [alphabet[0], alphabet[-1]]
    for pat in (PATTERNS[:2] if case.get("tier", "quick") == "quick" else PATTERNS):
        variants += assign(alphabet, pat, n, base)
    runs = []
    for vi, vals in enumerate(variants):
        for method in ("constant", "automatic"):
            s2 = copy.deepcopy(sp)
            for o, v in zip([o for o in s2["ops"] if o["op"] == "junction"], vals):
                o[col] = v
            try:
                net, idmap = spec.build(s2)
            except Exception as e:
                return {"status": "build_error:" + type(e).__name__, "violations": []}
            kw = dict(spec.TIGHT)
            kw.update(opts)
            kw["nonlinear_method"] = method
            try:
                pp.pipeflow(net, **kw)
            except Exception as e:
                runs.append((vi, method, None))
                continue
            runs.append((vi, method, spec.results_by_id(net, idmap)))
    ok = [r for r in runs if r[2] is not None]
    vs = []
    seq = case["kind"] == "T" and opts.get("mode") == "sequential"
    keep = ("t_k", "t_from_k", "t_to_k", "t_outlet_k", "mdot_from_kg_per_s", "mdot_to_kg_per_s", "mdot_kg_per_s", "qext_w", "deltat_k")
    if len(ok) >= 2:
        ref = ok[0]
        for r in ok[1:]:
            a, bres = ref[2], r[2]
            if seq:
                a = {k: ({c: v for c, v in row.items() if c in keep} if row else row) for k, row in a.items()}
                bres = {k: ({c: v for c, v in row.items() if c in keep} if row else row) for k, row in bres.items()}
            diffs = spec.compare_results(a, bres, rtol=1e-7, atol=1e-7, gas=sp["fluid"] != "water")
            if diffs:
                d = diffs[0]
                cols = sorted(set(x[1] for x in diffs))
                vs.append(viol("converged_runs_disagree", "%s start values %s (%s) vs %s (%s): %d cells differ, e.g. %s.%s %r vs %r; "
                               "columns %s; base %s" % (col, np.round(variants[ref[0]], 1).tolist(), ref[1],
                                                        np.round(variants[r[0]], 1).tolist(), r[1], len(diffs), d[0], d[1], d[2], d[3],
                                                        cols[:5], {k: v for k, v in b.items() if k not in ("point",)}),
                               start=col, col=cols[0], mode=opts.get("mode", "hydraulics"), gas=sp["fluid"] != "water",
                               damping_only=variants[ref[0]] == variants[r[0]]))
                break
    return {"status": "ok" if len(ok) >= 2 else "skipped_less_than_two_converged", "violations": vs, "nontrivial": len(ok) >= 2,
            "sig": core.jhash(b), "info": {"runs": len(runs), "converged_runs": len(ok)}}
