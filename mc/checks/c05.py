"""C05 - a returned result is converged and finite; a failed run leaves no results.

(a) explicit-state exploration of the real Newton driver under a scripted linearisation (all letter
    sequences up to the iteration bound, dedup on the driver's observable state);
(b) TLA+ model of the documented driver (tla/NewtonDriver.tla): TLC explores the complete state graph,
    every path of the dumped graph is replayed against the real driver (conformance);
(c) BFS over call histories of pandapipes.pipeflow on real (feasible / infeasible / singular) networks;
(d) every single (thorough: pair of) faulty linear-solve answer(s) at every solve index."""
import os
import re
import copy
import shutil
import tempfile
import itertools
import subprocess
import collections
import numpy as np
from mc import core, spec, driver
from mc.core import viol
import pandapipes as pp
from pandapipes.pf.pipeflow_setup import PipeflowNotConverged
import sys

PF = sys.modules["pandapipes.pipeflow"]

ID = "C05"
LEVEL = "model_checking"
RULE = ("(a) states = (iteration, alpha, last change levels, converged) of the real newton_raphson driven by a stub "
        "linearisation; letters = per-unknown change level in {0.5,1,2,4}xtol or NaN (uniform or one unknown "
        "deviating) x residual level in {0.5,1,2}xtol_res or NaN; all sequences up to max_iter, for the hydraulic, "
        "thermal and bidirectional stage x {constant, automatic, unknown method} x initial alpha {1, 0.1, 0.01}; "
        "(b) all paths of the TLC state graph of tla/NewtonDriver.tla replayed on the real driver; "
        "(c) BFS over histories of pipeflow calls (modes x budgets x tolerances x damping x feasible/infeasible edits) "
        "on one net object; (d) faulty spsolve answers {NaN, one NaN, +inf, zeros} at every solve index.")
ASSUMPTIONS = ["TLC is trusted for the exploration of the TLA+ model; the model is bound to the code by replaying every "
               "model path on the real newton_raphson/finalize_iteration/set_damping_factor",
               "the harness' own monitor recomputes the last change of every unknown from the vectors the linearisation "
               "returns; it does not rely on the driver's error bookkeeping",
               "tolerances in force are read from net._options"]
DETERMINISM_SLICE = 3

LEVELS = [0.5, 1.0, 2.0, 4.0, None]
RES_LEVELS = [0.5, 1.0, 2.0, None]


def letters_for(nvars, tier):
    profs = []
    for l in LEVELS:
        profs.append(tuple([l] * nvars))
    pairs = [(0.5, 2.0), (0.5, None), (2.0, 0.5), (4.0, 2.0), (1.0, 2.0), (2.0, 4.0), (0.5, 1.0)]
    if tier == "thorough":
        pairs = [(a, b) for a in LEVELS for b in LEVELS if a != b]
    for base, dev in pairs:
        for v in range(nvars):
            p = [base] * nvars
            p[v] = dev
            profs.append(tuple(p))
    profs = list(dict.fromkeys(profs))
    return [(p, r) for p in profs for r in RES_LEVELS]


def _cached_bidir():
    if not hasattr(_cached_bidir, "v"):
        import inspect
        src = inspect.getsource(PF.bidirectional)
        m = re.search(r"solver_vars\s*=\s*(\[[^\]]*\])", src)
        solver_vars = eval(m.group(1))
        m2 = re.search(r"newton_raphson\(\s*net,\s*solve_bidirectional,\s*'bidirectional',\s*solver_vars,\s*(\[[^\]]*\]),"
                       r"\s*(\[[^\]]*\]),", src)
        T = driver.TOLS
        tols = eval(m2.group(1), {"tol_m": T["tol_m"], "tol_p": T["tol_p"], "tol_temp": T["tol_T"], "tol_T": T["tol_T"]})
        pits = eval(m2.group(2))
        _cached_bidir.v = (solver_vars, tols, pits)
    return _cached_bidir.v


def bidir_call(net, funct):
    sv, tols, pits = _cached_bidir()
    return PF.newton_raphson(net, funct, "bidirectional", list(sv), list(tols), list(pits), "max_iter_bidirect")


def check_script_obs(sc, obs, vs, where):
    """invariants of the statement on the real driver's observable outcome + conformance with the model run"""
    letters = sc.letters
    if obs["exc"] is not None:
        vs.append(viol("driver_raised", "%s: driver raised %s: %s" % (where, type(obs["exc"]).__name__, obs["exc"]),
                       stage=sc.stage, method=sc.method, exc=type(obs["exc"]).__name__))
        return None
    n = obs["calls"]
    if n > sc.max_iter:
        vs.append(viol("budget_exceeded", "%s: %d iterations > max_iter %d" % (where, n, sc.max_iter), stage=sc.stage))
    method = sc.method if sc.method == "automatic" else "constant"
    trace = driver.model_run(letters, method, sc.alpha, sc.max_iter)
    mn, ma, mconv, mup = trace[-1] if trace else (0, sc.alpha, False, [])
    last_levels, last_res = letters[n - 1] if n else ((), None)
    within = all(l is not None and l <= 1.0 for l in last_levels)
    resok = last_res is not None and last_res <= 1.0
    anynan = any(l is None for l in last_levels) or last_res is None
    if obs["converged"]:
        if not within:
            bad = [i for i, l in enumerate(last_levels) if l is None or l > 1.0]
            names = [obs["unknowns"][i][0] for i in bad]
            vs.append(viol("converged_but_change_above_tolerance",
                           "%s: marked converged although the last change of %s was %s x tolerance" % (
                               where, names, [last_levels[i] for i in bad]), stage=sc.stage, method=method,
                           unknown="+".join(names), nan=anynan))
        if not resok:
            vs.append(viol("converged_but_residual_above_tolerance", "%s: converged with residual level %s" % (
                where, last_res), stage=sc.stage, method=method, nan=last_res is None))
        if method == "automatic" and abs(obs["alpha"] - 1.0) > 1e-12:
            vs.append(viol("converged_but_damped", "%s: converged with alpha=%s" % (where, obs["alpha"]), stage=sc.stage))
    # conformance with the reference model (both directions: same verdict, same alpha, same iteration count)
    if n != mn or obs["converged"] != mconv or abs(obs["alpha"] - ma) > 1e-12 * max(1, ma):
        # when the only disagreement is a convergence the invariants above already flagged, do not double report
        if not (obs["converged"] and not mconv and vs):
            vs.append(viol("model_mismatch", "%s: driver (iter=%d, alpha=%g, conv=%s) vs model (iter=%d, alpha=%g, conv=%s)" % (
                where, n, obs["alpha"], obs["converged"], mn, ma, mconv), stage=sc.stage, method=method,
                kind="conv" if obs["converged"] != mconv else ("alpha" if n == mn else "iter")))
    # recorded error history = the changes the linearisation produced
    ir = obs["internal"]
    it_key = [k for k in ir if k.startswith("iterations_")]
    if not it_key or ir[it_key[0]] != n:
        vs.append(viol("internal_results", "%s: iterations recorded %s, executed %d" % (where, ir.get(it_key[0]) if it_key else None, n),
                       stage=sc.stage))
    # automatic damping: rejected unknowns are restored to their previous iterate
    if method == "automatic" and n and sc.stage != "bidir":
        up = mup
        for (name, pit, col, tolkey, filt), u, old, new in zip(obs["unknowns"], up, obs["olds"][n - 1], obs["news"][n - 1]):
            arr = obs["pit"][pit]
            rows = obs["slack"] if filt else np.arange(arr.shape[0])
            cur = arr[rows, col]
            want = old if u else new
            if not np.array_equal(cur, want, equal_nan=True):
                vs.append(viol("damping_restore", "%s: unknown %s %s after an iteration whose change %s" % (
                    where, name, "not restored" if u else "overwritten", "grew" if u else "did not grow"),
                    stage=sc.stage, unknown=name))
    return (n, round(math_log10(obs["alpha"])), obs["converged"])


def math_log10(a):
    import math
    return math.log10(a) if a > 0 else -99


def explore_driver(stage, method, alpha, max_iter, tier):
    """BFS over real driver states; a state is reached by a script; dedupe on the observable driver state."""
    nvars = 5 if stage == "bidir" else len(driver.STAGES[stage]["unknowns"])
    letters = letters_for(nvars, tier)
    seen = set()
    frontier = collections.deque([()])
    vs = []
    transitions = 0
    states = set()
    outcomes = collections.Counter()
    call = bidir_call if stage == "bidir" else None
    while frontier:
        prefix = frontier.popleft()
        for let in letters:
            script = prefix + (let,)
            sc = driver.Script(stage, list(script), method, alpha, max_iter=len(script))
            obs = driver.run_script(sc, call)
            transitions += 1
            key = check_script_obs(sc, obs, vs, "stage=%s method=%s alpha0=%s script=%s" % (stage, method, alpha, list(script)))
            if key is None:
                continue
            outcomes[(key[2], key[1])] += 1
            # future behaviour depends on: iteration count, alpha, last change levels (trend), converged
            skey = (key[0], key[1], key[2], let[0] if method == "automatic" else None)
            states.add(core.jhash([stage, method, alpha, skey]))
            if skey in seen:
                continue
            seen.add(skey)
            if not obs["converged"] and len(script) < max_iter:
                frontier.append(script)
        if len(vs) > 200:
            break
    return vs, states, transitions, outcomes


# --------------------------------------------------------------------------------------------------
# (b) TLC
# --------------------------------------------------------------------------------------------------
def run_tlc(max_iter, automatic, initexp):
    tla_dir = os.path.join(core.VERIF_DIR, "tla")
    d = tempfile.mkdtemp(prefix="c05tlc_")
    try:
        cfg = open(os.path.join(tla_dir, "NewtonDriver.cfg.tmpl")).read()
        cfg = cfg.replace("@MAXITER@", str(max_iter)).replace("@AUTOMATIC@", "TRUE" if automatic else "FALSE").replace(
            "@INITDAMP@", str(-initexp))
        open(os.path.join(d, "NewtonDriver.cfg"), "w").write(cfg)
        shutil.copy(os.path.join(tla_dir, "NewtonDriver.tla"), d)
        p = subprocess.run(["tlc", "-workers", "1", "-noGenerateSpecTE", "-deadlock", "-metadir", os.path.join(d, "meta"),
                            "-dump", "dot,actionlabels", os.path.join(d, "graph"), "NewtonDriver.tla"],
                           cwd=d, capture_output=True, text=True, timeout=600)
        out = p.stdout
        if "No error has been found" not in out:
            return None, out[-2000:]
        m = re.search(r"(\d+) states generated, (\d+) distinct states found", out)
        dot = open(os.path.join(d, "graph.dot")).read()
        return {"generated": int(m.group(1)), "distinct": int(m.group(2)), "dot": dot}, None
    finally:
        shutil.rmtree(d, ignore_errors=True)


def parse_dot(dot):
    nodes = {}
    edges = collections.defaultdict(list)
    init = None
    for line in dot.splitlines():
        m = re.match(r'^(-?\d+) \[label="(.*?)"(,style = filled)?', line)
        if m and "->" not in line:
            lab = m.group(2)
            st = {"conv": "conv = TRUE" in lab, "niter": int(re.search(r"niter = (\d+)", lab).group(1)),
                  "aexp": int(re.search(r"aexp = (-?\d+)", lab).group(1))}
            nodes[m.group(1)] = st
            if m.group(3):
                init = m.group(1)
            continue
        m = re.match(r'^(-?\d+) -> (-?\d+) \[label="Step\(\[within \|-> (\w+), resok \|-> (\w+), allup \|-> (\w+)\]\)"', line)
        if m:
            edges[m.group(1)].append((m.group(2), (m.group(3) == "TRUE", m.group(4) == "TRUE", m.group(5) == "TRUE")))
    return nodes, edges, init


def concretise(path_letters, nvars, variant):
    """abstract (within, resok, allup) letters -> concrete change levels realising them"""
    out = []
    prev = None
    for within, resok, allup in path_letters:
        if prev is None:
            lev = [0.25] * nvars if within else [2.0] * nvars
            if not within and variant:
                lev = [0.25] * nvars
                lev[variant % nvars] = 2.0
        elif within and allup:
            lev = [(p + 1.0) / 2 for p in prev]
        elif within and not allup:
            lev = [min(p, 1.0) / 2 for p in prev]
        elif not within and allup:
            lev = [max(p, 1.0) * 2 for p in prev]
        else:
            # some unknown above its tolerance, not all unknowns growing (nvars >= 2 in every stage)
            lev = [p / 2 for p in prev]
            lev[variant % nvars] = max(2.0, prev[variant % nvars] * 2)
        out.append((tuple(lev), 0.5 if resok else 2.0))
        prev = lev
    return out


def abstract_of(letters):
    prev = None
    out = []
    for lev, res in letters:
        within = all(l <= 1.0 for l in lev)
        up = prev is not None and all(l > p for l, p in zip(lev, prev))
        out.append((within, res <= 1.0, up))
        prev = lev
    return out


def replay_model(max_iter, automatic, initexp, stage, variants):
    info, err = run_tlc(max_iter, automatic, initexp)
    vs = []
    if info is None:
        vs.append(viol("tlc_failed", "TLC did not verify the driver model: %s" % err))
        return vs, 0, 0, 0, 0
    nodes, edges, init = parse_dot(info["dot"])
    nvars = 5 if stage == "bidir" else len(driver.STAGES[stage]["unknowns"])
    call = bidir_call if stage == "bidir" else None
    method = "automatic" if automatic else "constant"
    alpha0 = 10.0 ** initexp
    paths = 0
    unreal = 0
    stack = [(init, [])]
    while stack:
        node, letters = stack.pop()
        succ = edges.get(node, [])
        for tgt, let in succ:
            stack.append((tgt, letters + [(let, tgt)]))
        if not letters:
            continue
        # every prefix is a path of the model: replay it (the driver is run with max_iter = len(prefix))
        paths += 1
        abst = [l for l, _ in letters]
        for variant in variants:
            conc = concretise(abst, nvars, variant)
            if abstract_of(conc) != abst:
                unreal += 1
                continue
            sc = driver.Script(stage, conc, method, alpha0, max_iter=len(conc))
            obs = driver.run_script(sc, call)
            tgt = nodes[letters[-1][1]]
            where = "model path %s (stage=%s, %s, alpha0=%g)" % (abst, stage, method, alpha0)
            if obs["exc"] is not None:
                vs.append(viol("driver_raised", "%s: %r" % (where, obs["exc"]), stage=stage, method=method,
                               exc=type(obs["exc"]).__name__))
                continue
            got = (obs["calls"], round(math_log10(obs["alpha"])), obs["converged"])
            want = (tgt["niter"], tgt["aexp"], tgt["conv"])
            if got != want:
                vs.append(viol("tla_conformance", "%s: implementation reaches (niter, log10 alpha, conv)=%s, model state is %s; "
                               "concrete letters %s" % (where, got, want, conc), stage=stage, method=method,
                               kind="conv" if got[2] != want[2] else ("alpha" if got[1] != want[1] else "iter")))
    return vs, info["distinct"], info["generated"], paths, unreal


# --------------------------------------------------------------------------------------------------
# (c) + (d): real networks
# --------------------------------------------------------------------------------------------------
def net_water():
    net = pp.create_empty_network(fluid="water")
    j = pp.create_junctions(net, 4, 5, 320)
    pp.create_ext_grid(net, j[0], 5, 350)
    pp.create_pipe_from_parameters(net, j[0], j[1], 0.3, 60, u_w_per_m2k=8, sections=2)
    pp.create_pipe_from_parameters(net, j[1], j[2], 0.2, 50, u_w_per_m2k=8)
    pp.create_pipe_from_parameters(net, j[1], j[3], 0.2, 50, u_w_per_m2k=8)
    pp.create_pipe_from_parameters(net, j[2], j[3], 0.1, 40, u_w_per_m2k=8)
    pp.create_sink(net, j[2], 0.4)
    pp.create_sink(net, j[3], 0.3)
    return net


def net_gas():
    net = pp.create_empty_network(fluid="lgas")
    j = pp.create_junctions(net, 3, 1.0, 300)
    pp.create_ext_grid(net, j[0], 1.0, 300)
    pp.create_pipe_from_parameters(net, j[0], j[1], 1.0, 80)
    pp.create_pipe_from_parameters(net, j[1], j[2], 1.0, 60, sections=2)
    pp.create_sink(net, j[1], 0.01)
    pp.create_sink(net, j[2], 0.01)
    return net


def net_loop():
    net = pp.create_empty_network(fluid="water")
    j = pp.create_junctions(net, 4, 5, 340)
    pp.create_circ_pump_const_pressure(net, j[3], j[0], 5, 1.0, 350)
    pp.create_pipe_from_parameters(net, j[0], j[1], 0.2, 60, u_w_per_m2k=10)
    pp.create_heat_consumer(net, j[1], j[2], qext_w=20000, controlled_mdot_kg_per_s=0.5)
    pp.create_pipe_from_parameters(net, j[2], j[3], 0.2, 60, u_w_per_m2k=10)
    return net


def net_pumploop():
    """circulation pump loop without prescribed flows: a negative lift drives the flow backwards through the pump"""
    net = pp.create_empty_network(fluid="water")
    j = pp.create_junctions(net, 3, 5, 340)
    pp.create_circ_pump_const_pressure(net, j[2], j[0], 5, 0.5, 350)
    pp.create_pipe_from_parameters(net, j[0], j[1], 0.2, 60, u_w_per_m2k=10)
    pp.create_pipe_from_parameters(net, j[1], j[2], 0.2, 60, u_w_per_m2k=10)
    return net


NETS = {"water": net_water, "gas": net_gas, "loop": net_loop, "pumploop": net_pumploop}
# edits: (name, apply, undo)
EDITS = {
    "infeasible_load": (lambda n: n.sink.__setitem__("mdot_kg_per_s", n.sink.mdot_kg_per_s * 1e4) if len(n.sink) else
                        n.heat_consumer.__setitem__("controlled_mdot_kg_per_s", 5e3)),
    "restore_load": None,
    "no_feeder": None,
}
CALLS = [
    {"mode": "hydraulics"}, {"mode": "sequential"}, {"mode": "bidirectional"},
    {"mode": "hydraulics", "iter": 1}, {"mode": "sequential", "max_iter_therm": 1}, {"mode": "bidirectional", "iter": 2},
    {"mode": "hydraulics", "tol_p": 1e-12, "tol_m": 1e-12, "tol_res": 1e-12, "iter": 4},
    {"mode": "hydraulics", "nonlinear_method": "automatic", "iter": 30},
    {"mode": "sequential", "nonlinear_method": "automatic", "iter": 30},
    {"mode": "hydraulics", "use_numba": False, "friction_model": "colebrook"},
    {"mode": "bidirectional", "tol_m": 1e-4, "tol_p": 5e-8, "tol_res": 1e-1, "iter": 30},
    {"mode": "hydraulics", "tol_m": 1e-8, "tol_p": 1e3, "tol_res": 1e6, "iter": 30},
    {"mode": "sequential", "tol_T": 1e-9, "tol_res": 1e6, "iter": 40},
]
EDIT_OPS = ["break", "unbreak", "cut_feeder", "restore_feeder", "nan_param", "restore_param", "reverse_pump"]


def apply_edit(net, name, saved):
    if name == "break":
        if len(net.sink):
            saved["sink"] = net.sink.mdot_kg_per_s.copy()
            net.sink["mdot_kg_per_s"] = net.sink.mdot_kg_per_s * 3e4
        elif len(net.heat_consumer) if "heat_consumer" in net else False:
            saved["hc"] = net.heat_consumer.controlled_mdot_kg_per_s.copy()
            net.heat_consumer["controlled_mdot_kg_per_s"] = 4e4
        else:
            saved["len"] = net.pipe.length_km.copy()
            net.pipe["length_km"] = np.nan
    elif name == "unbreak":
        if "sink" in saved:
            net.sink["mdot_kg_per_s"] = saved.pop("sink")
        if "hc" in saved:
            net.heat_consumer["controlled_mdot_kg_per_s"] = saved.pop("hc")
        if "len" in saved:
            net.pipe["length_km"] = saved.pop("len")
    elif name == "cut_feeder":
        if len(net.ext_grid):
            net.ext_grid["in_service"] = False
        else:
            net.circ_pump_pressure["in_service"] = False
    elif name == "restore_feeder":
        if len(net.ext_grid):
            net.ext_grid["in_service"] = True
        else:
            net.circ_pump_pressure["in_service"] = True
    elif name == "reverse_pump":
        if "circ_pump_pressure" in net and len(net.circ_pump_pressure):
            net.circ_pump_pressure["plift_bar"] = -net.circ_pump_pressure.plift_bar.abs()
    elif name == "nan_param":
        saved["d"] = net.pipe.inner_diameter_mm.copy()
        net.pipe.loc[net.pipe.index[0], "inner_diameter_mm"] = np.nan
    elif name == "restore_param":
        if "d" in saved:
            net.pipe["inner_diameter_mm"] = saved.pop("d")


class Monitor:
    """wraps newton_raphson: records, per stage, the vectors of the last iteration and alpha"""

    def __init__(self):
        self.stages = []
        self.orig = PF.newton_raphson

    def __enter__(self):
        mon = self

        def wrapped(net, funct, mode, solver_vars, tols, pit_names, iter_name):
            rec = {"mode": mode, "last": None, "iters": 0, "iter_name": iter_name, "max_iter": net["_options"][iter_name]}

            def snap(net_):
                """the unknown vectors as they stand in the solver's tables (independent of what the linearisation returns)"""
                from pandapipes.idx_branch import MDOTINIT as _M, TOUTINIT as _TO
                from pandapipes.idx_node import PINIT as _P, TINIT as _T
                key = "_pit" if mode == "bidirectional" else "_active_pit"
                if key not in net_:
                    return None
                b, n = net_[key]["branch"], net_[key]["node"]
                return {"mdot": b[:, _M].copy(), "p": n[:, _P].copy(), "Tout": b[:, _TO].copy(), "T": n[:, _T].copy()}

            def f2(net_):
                before = snap(net_)
                results, residual, filtered = funct(net_)
                after = snap(net_)
                rec["iters"] += 1
                rec["last"] = ([np.array(r, dtype=float).copy() for r in results], np.array(residual, dtype=float).copy())
                rec["indep"] = None
                if before is not None and after is not None and all(before[k].shape == after[k].shape for k in before):
                    with np.errstate(invalid="ignore"):
                        rec["indep"] = {k: (float(np.nanmax(np.abs(after[k] - before[k]))) if len(before[k]) and not np.all(
                            np.isnan(after[k] - before[k])) else 0.0) for k in before}
                return results, residual, filtered
            try:
                return mon.orig(net, f2, mode, solver_vars, tols, pit_names, iter_name)
            finally:
                rec["alpha"] = net["_options"]["alpha"]
                rec["converged"] = bool(net.converged)
                rec["opts"] = {k: net["_options"][k] for k in ("tol_m", "tol_p", "tol_T", "tol_res", "nonlinear_method")}
                mon.stages.append(rec)
        PF.newton_raphson = wrapped
        return self

    def __exit__(self, *a):
        PF.newton_raphson = self.orig


def finite_cells(net):
    n = 0
    for k in net.keys():
        if k.startswith("res_") and hasattr(net[k], "values") and len(net[k]):
            vals = net[k].select_dtypes(include=[np.number]).values
            n += int(np.isfinite(vals).sum())
    return n


def check_call(net, kw, vs, where, tag):
    """run one pipeflow call under the monitor and evaluate the statement"""
    with Monitor() as mon:
        try:
            pp.pipeflow(net, **kw)
            exc = None
        except BaseException as e:  # noqa
            exc = e
    mode = kw.get("mode", "hydraulics")
    if exc is None:
        if not net.converged:
            vs.append(viol("returned_not_converged", "%s: pipeflow returned but net.converged is False" % where, mode=mode, **tag))
        # only the last run of each stage counts (re-runs replace earlier ones)
        last = {}
        for rec in mon.stages:
            last[rec["mode"]] = rec
        for m, rec in last.items():
            if rec["last"] is None:
                continue
            results, residual = rec["last"]
            o = rec["opts"]
            if m == "hydraulics":
                tl = [o["tol_m"], o["tol_p"], o["tol_m"]]
                names = ["mdot", "p", "mdotslack"]
            elif m == "heat":
                tl = [o["tol_T"], o["tol_T"]]
                names = ["Tout", "T"]
            else:
                tl = [o["tol_m"], o["tol_p"], o["tol_m"], o["tol_T"], o["tol_T"]]
                names = ["mdot", "p", "mdotslack", "Tout", "T"]
            for i, (nm, t) in enumerate(zip(names, tl)):
                if 2 * i + 1 >= len(results):
                    break
                d = results[2 * i] - results[2 * i + 1]
                e = np.max(np.abs(d)) if len(d) else 0.0
                if not e <= t:
                    vs.append(viol("returned_with_change_above_tolerance", "%s: stage %s returned although the last change of %s "
                                   "was %.3e > %.1e" % (where, m, nm, e, t), stage=m, unknown=nm, **tag))
            # independent measurement: how far did the unknowns in the solver's own tables move in the last iteration?
            ind = rec.get("indep")
            if ind:
                rel = {"hydraulics": (("mdot", o["tol_m"]), ("p", o["tol_p"])), "heat": (("Tout", o["tol_T"]), ("T", o["tol_T"])),
                       "bidirectional": (("mdot", o["tol_m"]), ("p", o["tol_p"]), ("Tout", o["tol_T"]), ("T", o["tol_T"]))}[m]
                for nm, t in rel:
                    if not ind[nm] <= t * (1 + 1e-9):
                        vs.append(viol("returned_with_change_above_tolerance", "%s: stage %s returned although %s in the solver's tables "
                                       "moved by %.3e > %.1e in the last iteration" % (where, m, nm, ind[nm], t), stage=m, unknown=nm,
                                       measured="tables", **tag))
            rn = np.max(np.abs(residual)) if len(residual) else 0.0
            if not rn <= o["tol_res"]:
                vs.append(viol("returned_with_residual_above_tolerance", "%s: stage %s residual %.3e > %.1e" % (
                    where, m, rn, o["tol_res"]), stage=m, **tag))
            if o["nonlinear_method"] == "automatic" and rec["alpha"] != 1:
                vs.append(viol("returned_damped", "%s: stage %s returned with alpha %s" % (where, m, rec["alpha"]), stage=m, **tag))
            if rec["iters"] > rec["max_iter"]:
                vs.append(viol("budget_exceeded", "%s: %d > %d iterations" % (where, rec["iters"], rec["max_iter"]), stage=m, **tag))
        # every supplied in-service element finite: junction pressures and branch flows
        pj = net.res_junction.p_bar
        if not np.all(np.isfinite(pj[net.junction.in_service.values])) and mode != "heat":
            pass  # unsupplied junctions are NaN by C04; finite-ness of supplied ones is checked through the branches
        for t in ("pipe", "heat_consumer", "circ_pump_pressure"):
            if t in net and len(net[t]):
                rt = net["res_" + t]
                act = net[t].in_service.values
                sub = rt[act]
                if np.isinf(sub.select_dtypes(include=[np.number]).values).any():
                    vs.append(viol("returned_infinite", "%s: infinite values in res_%s" % (where, t), table=t, **tag))
        return "returned"
    if not isinstance(exc, PipeflowNotConverged):
        vs.append(viol("wrong_exception", "%s: raised %s: %s" % (where, type(exc).__name__, str(exc)[:160]),
                       exc=type(exc).__name__, mode=mode, **tag))
    if net.get("converged", False):
        vs.append(viol("failed_but_marked_converged", "%s: raised %s but net.converged is True" % (where, type(exc).__name__),
                       mode=mode, **tag))
    nfin = finite_cells(net)
    if nfin:
        vs.append(viol("failed_but_results_left", "%s: raised %s and %d result cells still hold numbers" % (
            where, type(exc).__name__, nfin), mode=mode, exc=type(exc).__name__, **tag))
    for rec in mon.stages:
        if rec["iters"] > rec["max_iter"]:
            vs.append(viol("budget_exceeded", "%s: %d > %d iterations" % (where, rec["iters"], rec["max_iter"]), stage=rec["mode"], **tag))
    return "raised:" + type(exc).__name__


def history_cases(tier):
    """a history is a sequence of steps; a step is an optional edit followed by one pipeflow call"""
    depth = 2 if tier == "quick" else 3
    calls = list(range(len(CALLS))) if tier == "thorough" else [0, 1, 2, 3, 10, 11, 12]
    edits = [None] + (EDIT_OPS if tier == "thorough" else ["break", "unbreak", "cut_feeder", "restore_feeder", "nan_param"])
    steps = [(e, c) for e in edits for c in calls]
    if tier == "thorough":
        # depth 3 with the full menu is too large: third step restricted to the plain calls without edit
        third = [(None, c) for c in (0, 1, 2)] + [(e, 0) for e in EDIT_OPS]
    out = []
    for netname in NETS:
        for h in range(1, depth + 1):
            menus = [steps] * min(h, 2) + ([third] if h == 3 else [])
            if h == 3:
                # depth 3: the first two steps come from the reduced (quick) menu
                small2 = [(e, c) for e in (None, "break", "unbreak", "cut_feeder", "restore_feeder", "nan_param")
                          for c in (0, 1, 2, 3, 10, 11, 12)]
                menus = [small2, small2, third]
            if netname == "pumploop":
                # the pump-loop net exists for the reverse-flow failure: restricted menu
                small = [(e, c) for e in (None, "reverse_pump", "cut_feeder", "break") for c in (0, 1, 2)]
                menus = [small] * min(h, 2) + ([[(None, 0), ("reverse_pump", 1)]] if h == 3 else [])
            for seq in itertools.product(*menus):
                ops = []
                for e, c in seq:
                    if e is not None:
                        ops.append(["edit", e])
                    ops.append(["call", c])
                out.append({"part": "c", "net": netname, "ops": ops})
    return out


def run_history(case):
    net = NETS[case["net"]]()
    saved = {}
    vs = []
    states = []
    transitions = 0
    outcomes = []
    for i, (kind, arg) in enumerate(case["ops"]):
        if kind == "edit":
            apply_edit(net, arg, saved)
            continue
        kw = dict(CALLS[arg])
        if case["net"] == "gas" and kw.get("mode") in ("sequential", "bidirectional"):
            kw["mode"] = "hydraulics"
        if "use_numba" not in kw:
            kw["use_numba"] = False
        where = "net=%s history=%s step %d" % (case["net"], case["ops"], i)
        st = check_call(net, kw, vs, where, {"net": case["net"]})
        outcomes.append(st)
        transitions += 1
        states.append(core.jhash([case["net"], case["ops"][:i + 1], st]))
    return {"status": "ok", "violations": vs, "states": states, "transitions": transitions, "traces": 1,
            "nontrivial": len(set(outcomes)) > 1 or len(case["ops"]) > 1, "sig": core.jhash([case["net"], outcomes, case["ops"]]),
            "info": {"hist_" + o.split(":")[0]: outcomes.count(o) for o in set(outcomes)}}


FAULTS = ["nan_all", "nan_one", "inf_one", "zeros", "neg_inf"]


def fault_cases(tier):
    out = []
    modes = ["hydraulics", "sequential", "bidirectional"]
    for netname in NETS:
        for mode in modes:
            if netname == "gas" and mode != "hydraulics":
                continue
            for fm in ("nikuradse", "colebrook"):
                for method in ("constant", "automatic"):
                    out.append({"part": "d", "net": netname, "mode": mode, "friction": fm, "method": method,
                                "pairs": tier == "thorough"})
    return out


class FaultySolve:
    def __init__(self, plan):
        self.plan = plan
        self.n = 0
        self.orig = PF.spsolve

    def __enter__(self):
        me = self

        def solve(a, b):
            x = me.orig(a, b)
            f = me.plan.get(me.n)
            me.n += 1
            if f == "nan_all":
                x = np.full_like(x, np.nan)
            elif f == "nan_one":
                x = x.copy()
                x[len(x) // 2] = np.nan
            elif f == "inf_one":
                x = x.copy()
                x[0] = np.inf
            elif f == "neg_inf":
                x = x.copy()
                x[-1] = -np.inf
            elif f == "zeros":
                x = np.zeros_like(x)
            return x
        PF.spsolve = solve
        return self

    def __exit__(self, *a):
        PF.spsolve = self.orig


def run_faults(case):
    vs = []
    transitions = 0
    states = []
    kw = {"mode": case["mode"], "friction_model": case["friction"], "nonlinear_method": case["method"],
          "use_numba": False, "iter": 12}
    # number of solves of the fault-free run
    net = NETS[case["net"]]()
    with FaultySolve({}) as fs:
        try:
            pp.pipeflow(net, **kw)
        except Exception:
            pass
        nsolve = fs.n
    outcomes = collections.Counter()
    plans = [{i: f} for i in range(nsolve) for f in FAULTS]
    if case["pairs"]:
        plans += [{i: f, j: g} for i in range(nsolve) for j in range(i + 1, min(nsolve, i + 3)) for f in FAULTS for g in FAULTS]
    for plan in plans:
        net = NETS[case["net"]]()
        # a successful run first: failed runs must wipe earlier results
        pp.pipeflow(net, **kw)
        with FaultySolve(plan):
            where = "net=%s mode=%s friction=%s method=%s faults=%s" % (case["net"], case["mode"], case["friction"], case["method"], plan)
            st = check_call(net, kw, vs, where, {"net": case["net"], "fault": "+".join(sorted(set(plan.values())))})
        outcomes[st] += 1
        transitions += 1
        states.append(core.jhash([case, sorted(plan.items()), st]))
    return {"status": "ok", "violations": vs, "states": states, "transitions": transitions, "traces": len(plans),
            "nontrivial": len(outcomes) >= 1 and nsolve > 1, "sig": core.jhash([case, sorted(outcomes.items())]),
            "info": {"fault_" + k.split(":")[0]: v for k, v in outcomes.items()}}


def cases(tier):
    out = []
    mi = 3 if tier == "quick" else 4
    for stage in ("hydraulics", "heat", "bidir"):
        for method in ("constant", "automatic", "no_such_method"):
            # 0.01: a user-chosen start factor from which one accepted step ends at 0.1 (still damped)
            for alpha in (1.0, 0.1, 0.01):
                out.append({"part": "a", "stage": stage, "method": method, "alpha": alpha, "max_iter": mi, "tier": tier})
    mt = 4 if tier == "quick" else 6
    for stage in ("hydraulics", "heat", "bidir"):
        for automatic in (False, True):
            for initexp in (0, -1):
                out.append({"part": "b", "stage": stage, "automatic": automatic, "initexp": initexp, "max_iter": mt})
    out += history_cases(tier)
    out += fault_cases(tier)
    out += refusal_cases(tier)
    return out


def refusal_cases(tier):
    """part e: the only way a valid description may be refused is PipeflowNotConverged. All two-junction networks
    (one or two parallel branches of every kind) x every point within 2 deviations of which one is a solver setting
    (friction model, damping method / factor, engine), solved with extreme inner tolerances."""
    from mc import scopes
    out = []
    for c in scopes.h_cases(2, 2, 2 if tier == "quick" else 3):
        names = [d[0] for d in c["dev"]]
        if any(n in ("friction", "method", "alpha", "numba") for n in names) and any(n.startswith("e") for n in names):
            out.append({"part": "e", "case": c})
        elif len(names) == 2 and all(n.startswith("e") for n in names):
            out.append({"part": "e", "case": c})     # every pair of parallel branch kinds (incl. over-determined ones)
    return out


def run_refusal(case):
    from mc import scopes
    c = case["case"]
    sp, opts = scopes.h_spec(c)
    vs = []
    statuses = []
    inners = ({"tolerance_colebrook": 1e-13, "max_iter_colebrook": 200}, {"max_iter_colebrook": 3})
    if not any(d[0] in ("friction", "method", "alpha", "numba") for d in c["dev"]):
        inners = ({},)    # pairs of branch kinds with default solver settings
    for inner in inners:
        net, idmap = spec.build(sp)
        kw = dict(spec.TIGHT)
        kw.update(opts)
        kw.pop("tolerance_colebrook", None)
        kw.pop("max_iter_colebrook", None)
        kw.update(inner)
        try:
            pp.pipeflow(net, **kw)
            st = "returned"
        except PipeflowNotConverged:
            st = "not_converged"
        except Exception as e:
            st = "raised:" + type(e).__name__
            vs.append(viol("wrong_exception_type", "two-junction net %s, options %s: %s: %s" % (
                c["dev"], {k: v for k, v in kw.items() if k in ("friction_model", "nonlinear_method", "alpha", "use_numba",
                                                               "tolerance_colebrook", "max_iter_colebrook")},
                type(e).__name__, str(e)[:120]), exc=type(e).__name__, friction=kw.get("friction_model")))
        if st != "returned":
            if net.converged or any(np.isfinite(net[t].values.astype(float)).any() for t in net.keys()
                                    if t.startswith("res_") and hasattr(net[t], "values") and net[t].size):
                vs.append(viol("failed_but_results", "two-junction net %s: %s, but converged=%s or result tables hold numbers" % (
                    c["dev"], st, net.converged), exc=st))
        statuses.append(st)
    return {"status": "ok", "violations": vs, "states": [core.jhash([c, i]) for i in range(len(inners))],
            "transitions": len(inners), "traces": len(inners), "nontrivial": "returned" in statuses, "sig": core.jhash([c["dev"], statuses]),
            "info": {"refusal_" + s_: statuses.count(s_) for s_ in set(statuses)}}


def run_case(case):
    part = case["part"]
    if part == "a":
        vs, states, transitions, outcomes = explore_driver(case["stage"], case["method"], case["alpha"], case["max_iter"],
                                                           case.get("tier", "quick"))
        return {"status": "ok", "violations": vs, "states": sorted(states), "transitions": transitions, "traces": transitions,
                "nontrivial": len(outcomes) > 1, "sig": core.jhash([case, sorted((str(k), v) for k, v in outcomes.items())]),
                "info": {"driver_executions": transitions, "driver_states": len(states)}}
    if part == "b":
        variants = (0, 1, 2) if case["stage"] != "heat" else (0, 1)
        vs, distinct, generated, paths, unreal = replay_model(case["max_iter"], case["automatic"], case["initexp"],
                                                              case["stage"], variants)
        return {"status": "ok", "violations": vs, "states": [core.jhash([case, i]) for i in range(distinct)],
                "transitions": generated, "traces": paths * len(variants) - unreal, "nontrivial": paths > 10,
                "sig": core.jhash(case), "info": {"tlc_distinct_states": distinct, "tlc_states_generated": generated,
                                                  "model_paths": paths, "model_path_variants_not_realisable": unreal}}
    if part == "c":
        return run_history(case)
    if part == "d":
        return run_faults(case)
    if part == "e":
        return run_refusal(case)
    raise KeyError(part)
