"""C15 - saving and loading a network loses nothing.
Enumerated networks (every component alone and together, empty tables, NaN/None cells, odd indices, custom columns,
custom fluids of every property class, pump types, results, user options, controllers, multinets) x four storage
paths; oracle = deep comparison + identical pipeflow results."""
import copy
import itertools
import os
import shutil
import tempfile
import numpy as np
import pandas as pd
from mc import core, spec
from mc.core import viol
import pandapipes as pp
from pandapipes.properties import fluids as FL
from pandapipes.std_types.std_type_class import PumpStdType

ID = "C15"
CASE_WEIGHT = 10   # relative cost of one case (pool sizing)
LEVEL = "exploration"
RULE = ("networks: one per component kind alone (15), all together, per variation {empty tables only, NaN / None / empty-string "
        "cells, non-contiguous unsorted and large indices, custom columns of each dtype, custom fluid built from each property "
        "class (constant, linear, interpolated, polynomial, Sutherland), pump types from lists and coefficients, with / "
        "without results, user options, sector gas/heat/None, ConstControl controllers (in and out of service, order/level), "
        "multinet with coupling controllers} and pairs of variations (thorough) x {to_json string, to_json file, encrypted "
        "json, pickle}. Non-trivial = round trip executed and compared; distinct = distinct (network, path).")
ASSUMPTIONS = ["equality is NaN-aware; None vs NaN in object columns counts as a difference only if the dtype changes",
               "temporary files are written to a fresh directory that is removed afterwards"]
PATHS = ["json_string", "json_file", "json_encrypted", "pickle"]
KINDS = ["junction", "pipe", "valve", "pump", "compressor", "flow_control", "press_control", "heat_exchanger", "heat_consumer",
         "circ_pump_mass", "circ_pump_pressure", "ext_grid", "sink", "source", "mass_storage"]
VARIATIONS = ["plain", "empty", "nan_cells", "odd_index", "custom_cols", "fluid_constant", "fluid_linear", "fluid_interextra",
              "fluid_polynomial", "fluid_sutherland", "pump_list", "pump_coeff", "results", "user_options", "sector_gas", "sector_heat",
              "sector_none", "controllers", "warn_flag"]


def warmup():
    pass


def build(kinds, variation):
    sector = {"sector_gas": pp.Sector.GAS, "sector_heat": pp.Sector.HEAT, "sector_none": pp.Sector.NONE}.get(variation)
    fluid = "lgas" if (variation == "sector_gas" or "compressor" in kinds and len(kinds) == 1) else "water"
    kw = {"sector": sector} if sector is not None else {}
    net = pp.create_empty_network("net_%s" % variation, fluid=fluid, **kw)
    if variation == "empty":
        return net
    idx = [0, 1, 2, 3] if variation != "odd_index" else [7, 3, 100000, 12]
    extra = {}
    if variation == "custom_cols":
        extra = {"c_int": [1, 2, 3, 4], "c_float": [0.5, np.nan, 2.5, 3.5], "c_str": ["a", None, "", "d"], "c_bool": [True, False, True, False]}
    pp.create_junctions(net, 4, 5.0, 320.0, index=idx, name=["a", None, "", "d"] if variation == "nan_cells" else None,
                        geodata=[(0, 0), (1, 0), (2, 1), (3, 1)], **extra)
    j = idx

    def has(k):
        return k in kinds
    if has("ext_grid") or len(kinds) > 1:
        pp.create_ext_grid(net, j[0], 5.0, 340.0, index=5 if variation == "odd_index" else None)
    if has("pipe") or len(kinds) > 1:
        pp.create_pipe_from_parameters(net, j[0], j[1], 0.3, 60.0, sections=2, u_w_per_m2k=5.0, index=9 if variation == "odd_index" else None,
                                       geodata=[(0, 0), (0.5, 0.5), (1, 0)])
        st = "80_GGG" if "80_GGG" in net.std_types["pipe"] else sorted(net.std_types["pipe"])[0]
        pp.create_pipe(net, j[1], j[2], st, 0.2, index=4 if variation == "odd_index" else None)
    if has("valve"):
        pp.create_valve(net, j[1], j[3], "ju", 40.0, opened=False)
        if "pipe" in net and len(net.pipe):
            pp.create_valve(net, j[1], net.pipe.index[1], "pi", 40.0)
    if has("pump"):
        if variation == "pump_list":
            pp.create_pump_from_parameters(net, j[2], j[3], "mypump", pressure_list=[6.0, 5.0, 4.0], flowrate_list=[0, 10, 20], reg_polynomial_degree=2)
        elif variation == "pump_coeff":
            pp.create_pump_from_parameters(net, j[2], j[3], "mycoeff", poly_coefficents=[-0.01, 0.1, 5.0])
        else:
            pp.create_pump(net, j[2], j[3], "P1")
    if has("compressor"):
        pp.create_compressor(net, j[2], j[3], 1.2)
    if has("flow_control"):
        pp.create_flow_control(net, j[2], j[3], 0.1, control_active=False)
    if has("press_control"):
        pp.create_pressure_control(net, j[2], j[3], j[3], 4.0, check_controllability=False)
    if has("heat_exchanger"):
        pp.create_heat_exchanger(net, j[2], j[3], 1000.0, 50.0)
    if has("heat_consumer"):
        pp.create_heat_consumer(net, j[2], j[3], qext_w=1000.0, controlled_mdot_kg_per_s=0.1)
        pp.create_heat_consumer(net, j[2], j[3], controlled_mdot_kg_per_s=0.1, treturn_k=300.0)
    if has("circ_pump_mass"):
        pp.create_circ_pump_const_mass_flow(net, j[3], j[0], 5.0, 0.5, 350.0)
    if has("circ_pump_pressure"):
        pp.create_circ_pump_const_pressure(net, j[3], j[0], 5.0, 1.0, 350.0, type="pt")
    if has("sink") or len(kinds) > 1:
        pp.create_sink(net, j[2], 0.2, scaling=0.5, in_service=variation != "nan_cells")
        if variation == "nan_cells":
            pp.create_sink(net, j[1], np.nan)
    if has("source"):
        pp.create_source(net, j[1], 0.05)
    if has("mass_storage"):
        pp.create_mass_storage(net, j[1], 0.01, init_m_stored_kg=5.0, max_m_stored_kg=np.inf)
    # fluids
    if variation == "fluid_constant":
        f = pp.create_constant_fluid("oil", "liquid", density=870.0, viscosity=0.03, heat_capacity=1900.0, compressibility=1.0,
                                     der_compressibility=0.0, molar_mass=0.2)
        FL._add_fluid_to_net(net, f)
    if variation == "warn_flag":
        f = pp.create_constant_fluid("oil2", "liquid", density=870.0, viscosity=0.03, heat_capacity=1900.0, compressibility=1.0,
                                     der_compressibility=0.0, molar_mass=0.2)
        f.add_property("density", FL.FluidPropertyConstant(870.0, warn_dependent_variables=True), overwrite=True, warn_on_duplicates=False)
        FL._add_fluid_to_net(net, f)
    if variation == "fluid_linear":
        pp.create_linear_property(net, "compressibility", -0.001, 1.01)
        pp.create_linear_property(net, "density", -0.4, 1120.0)
    if variation == "fluid_interextra":
        net.fluid.add_property("viscosity", FL.FluidPropertyInterExtra([270.0, 300.0, 350.0, 400.0], [1.7e-3, 8e-4, 3.7e-4, 2.2e-4]),
                               overwrite=True, warn_on_duplicates=False)
    if variation == "fluid_polynomial":
        net.fluid.add_property("heat_capacity", FL.FluidPropertyPolynominal([270.0, 300.0, 330.0, 360.0, 400.0], [4210.0, 4180.0, 4184.0, 4200.0, 4250.0], 2),
                               overwrite=True, warn_on_duplicates=False)
    if variation == "fluid_sutherland":
        net.fluid.add_property("viscosity", FL.FluidPropertySutherland(1.7e-5, 273.0, 111.0), overwrite=True, warn_on_duplicates=False)
    if variation == "user_options":
        pp.set_user_pf_options(net, tol_p=1e-7, friction_model="colebrook", iter=30, my_option=[1, 2])
    if variation == "controllers":
        from pandapower.control import ConstControl
        from pandapower.timeseries import DFData
        ds = DFData(pd.DataFrame({"s": [0.1, 0.2, 0.3]}))
        ConstControl(net, element="sink", variable="mdot_kg_per_s", element_index=[net.sink.index[0]], data_source=ds, profile_name=["s"])
        ConstControl(net, element="sink", variable="scaling", element_index=[net.sink.index[0]], data_source=ds, profile_name=["s"],
                     in_service=False, order=1, level=1)
    if variation == "results":
        try:
            pp.pipeflow(net, use_numba=False)
        except Exception:
            pass
    return net


def cases(tier):
    out = []
    allk = list(KINDS)
    for path in PATHS:
        for k in KINDS:
            out.append({"kinds": [k], "variation": "plain", "path": path})
        for v in VARIATIONS:
            kinds = ["junction", "pipe", "ext_grid", "sink", "pump", "valve"] if v in ("pump_list", "pump_coeff", "results", "controllers") else \
                ["junction", "pipe", "ext_grid", "sink"]
            if v == "plain":
                kinds = allk
            out.append({"kinds": kinds, "variation": v, "path": path})
        out.append({"kinds": ["multinet"], "variation": "multinet", "path": path})
        if tier == "thorough":
            for v1, v2 in itertools.combinations([v for v in VARIATIONS if v not in ("plain", "empty")], 2):
                if v1.startswith("sector") and v2.startswith("sector"):
                    continue
                out.append({"kinds": ["junction", "pipe", "ext_grid", "sink", "pump", "valve"], "variation": v1, "variation2": v2, "path": path})
    return out


def roundtrip(net, path, tmp, multinet=False):
    if path == "json_string":
        s = pp.to_json(net)
        return pp.from_json_string(s)
    if path == "json_file":
        fn = os.path.join(tmp, "n.json")
        pp.to_json(net, fn)
        return pp.from_json(fn)
    if path == "json_encrypted":
        fn = os.path.join(tmp, "e.json")
        pp.to_json(net, fn, encryption_key="key")
        return pp.from_json(fn, encryption_key="key")
    fn = os.path.join(tmp, "n.p")
    pp.to_pickle(net, fn)
    return pp.from_pickle(fn)


def norm_frame(df, json_path):
    """representation details that carry no information: tuple vs list cells, None vs NaN in object columns; floats written
    to JSON keep 15 significant digits (pandapower's encoder, trusted base)"""
    df = df.copy()
    for c in df.columns:
        if df[c].dtype == object:
            df[c] = [None if (v is None or (isinstance(v, float) and np.isnan(v))) else (json_like(v)) for v in df[c]]
    return df


def json_like(v):
    if isinstance(v, (list, tuple, np.ndarray)):
        return [json_like(x) for x in v]
    if isinstance(v, (np.integer,)):
        return int(v)
    if isinstance(v, (np.floating,)):
        return float(v)
    return v


def same(a, b):
    """NaN-aware deep equality"""
    if isinstance(a, float) and isinstance(b, float):
        return (np.isnan(a) and np.isnan(b)) or a == b
    if isinstance(a, np.ndarray) or isinstance(b, np.ndarray):
        a, b = np.asarray(a), np.asarray(b)
        if a.shape != b.shape:
            return False
        if a.dtype.kind in "fc" or b.dtype.kind in "fc":
            return bool(np.all((np.isnan(a.astype(float)) & np.isnan(b.astype(float))) | (a == b)))
        return bool(np.all(a == b))
    if isinstance(a, dict) and isinstance(b, dict):
        return set(a) == set(b) and all(same(a[k], b[k]) for k in a)
    if isinstance(a, (list, tuple)) and isinstance(b, (list, tuple)):
        return len(a) == len(b) and all(same(x, y) for x, y in zip(a, b))
    if isinstance(a, pd.DataFrame) and isinstance(b, pd.DataFrame):
        return spec.frames_equal(a, b) is None
    try:
        if a is None or b is None:
            return a is b or (a is None and isinstance(b, float) and np.isnan(b)) or (b is None and isinstance(a, float) and np.isnan(a))
        r = a == b
        return bool(r) if not hasattr(r, "all") else bool(r.all())
    except Exception:
        return repr(a) == repr(b)


def prop_repr(prop):
    d = {}
    for k, v in vars(prop).items():
        if k == "prop_getter":
            if hasattr(v, "x"):
                d["getter"] = {"x": np.asarray(v.x), "y": np.asarray(v.y), "fill": repr(getattr(v, "fill_value", None))}
            elif hasattr(v, "coeffs"):
                d["getter"] = {"coeffs": np.asarray(v.coeffs)}
            else:
                d["getter"] = repr(v)
        elif k == "prop_int_getter":
            d["int_getter"] = {"coeffs": np.asarray(v.coeffs)} if hasattr(v, "coeffs") else repr(v)
        else:
            d[k] = v
    return d


def compare_nets(a, b, vs, where, tag):
    for k in a.keys():
        if k.startswith("_"):
            continue
        if k not in b:
            vs.append(viol("entry_lost", "%s: entry %s missing after loading" % (where, k), entry=k, **tag))
            continue
        va, vb = a[k], b[k]
        if isinstance(va, pd.DataFrame):
            if k == "controller":
                continue
            if not isinstance(vb, pd.DataFrame):
                vs.append(viol("table_type", "%s: %s is %s after loading" % (where, k, type(vb).__name__), table=k, **tag))
                continue
            jp = tag["path"] == "json"
            d = spec.frames_equal(norm_frame(va, jp), norm_frame(vb, jp), float_atol=2e-15 if jp else 0.0, float_rtol=1e-14 if jp else 0.0)
            if d:
                col = d.split(":")[0].replace("cell ", "") if d.startswith("cell") else ""
                vs.append(viol("table_differs", "%s: table %s: %s" % (where, k, d), table=k if not k.startswith("res_") else "res_*",
                               what=d.split(" ")[0], col=col if not k.startswith("res_") else "", **tag))
        elif k == "fluid":
            if type(va) is not type(vb) or va.name != vb.name or va.fluid_type != vb.fluid_type or va.is_gas != vb.is_gas:
                vs.append(viol("fluid_differs", "%s: fluid %s/%s -> %s/%s" % (where, va.name, va.fluid_type, vb.name, vb.fluid_type), **tag))
            elif set(va.all_properties) != set(vb.all_properties):
                vs.append(viol("fluid_differs", "%s: fluid properties %s -> %s" % (where, sorted(va.all_properties), sorted(vb.all_properties)), **tag))
            else:
                for pn in va.all_properties:
                    pa, pb = va.all_properties[pn], vb.all_properties[pn]
                    if type(pa) is not type(pb):
                        vs.append(viol("fluid_property_differs", "%s: property %s class %s -> %s" % (where, pn, type(pa).__name__, type(pb).__name__),
                                       cls=type(pa).__name__, **tag))
                    elif not same(prop_repr(pa), prop_repr(pb)):
                        vs.append(viol("fluid_property_differs", "%s: property %s (%s): %s -> %s" % (where, pn, type(pa).__name__,
                                       str(prop_repr(pa))[:150], str(prop_repr(pb))[:150]), cls=type(pa).__name__, **tag))
                    else:
                        # behavioural probe
                        for x in (285.0, 333.0):
                            try:
                                ya, yb = pa.get_at_value(x), pb.get_at_value(x)
                            except Exception:
                                continue
                            if not same(np.asarray(ya, dtype=float), np.asarray(yb, dtype=float)):
                                vs.append(viol("fluid_property_differs", "%s: property %s at %s: %s -> %s" % (where, pn, x, ya, yb),
                                               cls=type(pa).__name__, **tag))
        elif k == "std_types":
            if set(va) != set(vb):
                vs.append(viol("std_types_differ", "%s: std type components %s -> %s" % (where, sorted(va), sorted(vb)), **tag))
                continue
            for comp in va:
                if set(va[comp]) != set(vb[comp]):
                    vs.append(viol("std_types_differ", "%s: %s std types %s lost / %s added" % (where, comp, sorted(set(va[comp]) - set(vb[comp]))[:3],
                                   sorted(set(vb[comp]) - set(va[comp]))[:3]), comp=comp, **tag))
                    continue
                for name in va[comp]:
                    x, y = va[comp][name], vb[comp][name]
                    if isinstance(x, dict):
                        ok = isinstance(y, dict) and same(x, y)
                    else:
                        ok = type(x) is type(y) and same({k2: v2 for k2, v2 in vars(x).items()}, {k2: v2 for k2, v2 in vars(y).items()})
                    if not ok:
                        vs.append(viol("std_types_differ", "%s: std type %s/%s: %s -> %s" % (where, comp, name, str(x if isinstance(x, dict) else vars(x))[:120],
                                       str(y if isinstance(y, dict) else vars(y))[:120]), comp=comp, **tag))
                        break
        elif k == "component_list":
            if [c.__name__ for c in va] != [c.__name__ for c in vb]:
                vs.append(viol("component_list_differs", "%s: %s -> %s" % (where, [c.__name__ for c in va], [c.__name__ for c in vb]), **tag))
        elif k in ("name", "sector", "version", "format_version", "converged"):
            if not (va == vb):
                vs.append(viol("attribute_differs", "%s: %s %r -> %r" % (where, k, va, vb), entry=k, **tag))
        elif k == "user_pf_options":
            if not same(dict(va), dict(vb)):
                vs.append(viol("user_options_differ", "%s: %s -> %s" % (where, va, vb), **tag))
    # controllers
    if "controller" in a and len(a.controller):
        if "controller" not in b or len(b.controller) != len(a.controller):
            vs.append(viol("controllers_lost", "%s: %d controllers saved, %d loaded" % (where, len(a.controller), len(b.get("controller", []))), **tag))
        else:
            for (ia, ra), (ib, rb) in zip(a.controller.iterrows(), b.controller.iterrows()):
                oa, ob = ra["object"], rb["object"]
                if ia != ib or type(oa) is not type(ob) or ra["in_service"] != rb["in_service"] or ra["order"] != rb["order"] or ra["level"] != rb["level"]:
                    vs.append(viol("controller_differs", "%s: controller row %s/%s differs" % (where, ia, ib), **tag))
                    continue
                for attr in ("element", "variable", "element_index", "profile_name"):
                    if not same(getattr(oa, attr, None), getattr(ob, attr, None)):
                        vs.append(viol("controller_differs", "%s: controller %s attribute %s: %r -> %r" % (where, ia, attr, getattr(oa, attr, None),
                                       getattr(ob, attr, None)), attr=attr, **tag))
                da, db = getattr(oa, "data_source", None), getattr(ob, "data_source", None)
                if da is not None and (db is None or not same(da.df, db.df)):
                    vs.append(viol("controller_differs", "%s: controller %s data source differs" % (where, ia), attr="data_source", **tag))


def build_multinet():
    import pandapower as ppower
    from pandapipes.multinet.create_multinet import create_empty_multinet, add_net_to_multinet
    from pandapipes.multinet.control.controller.multinet_control import P2GControlMultiEnergy, G2PControlMultiEnergy
    mn = create_empty_multinet("mn")
    pnet = ppower.create_empty_network()
    b = ppower.create_buses(pnet, 2, 20.0)
    ppower.create_ext_grid(pnet, b[0])
    ppower.create_line(pnet, b[0], b[1], 1.0, "NAYY 4x50 SE")
    ppower.create_load(pnet, b[1], 0.5)
    ppower.create_sgen(pnet, b[1], 0.0)
    g = pp.create_empty_network("gas", fluid="hgas")
    j = pp.create_junctions(g, 2, 10.0, 283.0)
    pp.create_ext_grid(g, j[0], 10.0, 283.0)
    pp.create_pipe_from_parameters(g, j[0], j[1], 1.0, 100.0)
    pp.create_source(g, j[1], 0.0)
    pp.create_sink(g, j[1], 0.01)
    add_net_to_multinet(mn, pnet, "power")
    add_net_to_multinet(mn, g, "gas")
    P2GControlMultiEnergy(mn, 0, 0, efficiency=0.7, name_power_net="power", name_gas_net="gas")
    G2PControlMultiEnergy(mn, 0, 0, efficiency=0.5, name_power_net="power", name_gas_net="gas", element_type_power="sgen")
    return mn


def run_case(case):
    vs = []
    tmp = tempfile.mkdtemp(prefix="c15_")
    tag = {"path": "json" if case["path"].startswith("json") else "pickle"}
    where = "kinds=%s variation=%s path=%s" % (case["kinds"], case["variation"] + ("+" + case["variation2"] if case.get("variation2") else ""), case["path"])
    try:
        if case["variation"] == "multinet":
            mn = build_multinet()
            try:
                mn2 = roundtrip(mn, case["path"], tmp)
            except Exception as e:
                vs.append(viol("roundtrip_raises", "%s: %s: %s" % (where, type(e).__name__, str(e)[:150]), exc=type(e).__name__, **tag))
                return {"status": "ok", "violations": vs, "nontrivial": True, "sig": core.jhash(case)}
            if set(mn["nets"]) != set(mn2["nets"]):
                vs.append(viol("multinet_nets", "%s: nets %s -> %s" % (where, sorted(mn["nets"]), sorted(mn2["nets"])), **tag))
            else:
                compare_nets(mn["nets"]["gas"], mn2["nets"]["gas"], vs, where + " (gas member)", tag)
                for t in ("bus", "line", "load", "sgen", "ext_grid"):
                    d = spec.frames_equal(norm_frame(mn["nets"]["power"][t], True), norm_frame(mn2["nets"]["power"][t], True), float_atol=2e-15, float_rtol=1e-14)
                    if d:
                        vs.append(viol("table_differs", "%s: power net table %s: %s" % (where, t, d), table=t, what=d.split(" ")[0], **tag))
            if len(mn.controller) != len(mn2.controller) or [type(o).__name__ for o in mn.controller.object] != [type(o).__name__ for o in mn2.controller.object]:
                vs.append(viol("controllers_lost", "%s: multinet controllers %d -> %d" % (where, len(mn.controller), len(mn2.get("controller", []))), **tag))
            else:
                for oa, ob in zip(mn.controller.object, mn2.controller.object):
                    for attr in ("efficiency", "elm_idx_power", "elm_idx_gas", "name_net_power", "name_net_gas", "elm_type_power"):
                        if hasattr(oa, attr) and not same(getattr(oa, attr), getattr(ob, attr, None)):
                            vs.append(viol("controller_differs", "%s: %s.%s %r -> %r" % (where, type(oa).__name__, attr, getattr(oa, attr), getattr(ob, attr, None)),
                                           attr=attr, **tag))
            return {"status": "ok", "violations": vs, "nontrivial": True, "sig": core.jhash(case)}
        net = build(case["kinds"], case["variation"])
        if case.get("variation2"):
            # second variation applied on top where it is an add-on
            v2 = case["variation2"]
            other = build(case["kinds"], v2)
            if v2.startswith("fluid") or v2 == "warn_flag":
                net.fluid = other.fluid
            if v2 == "user_options":
                net.user_pf_options = other.user_pf_options
            if v2 == "results":
                try:
                    pp.pipeflow(net, use_numba=False)
                except Exception:
                    pass
        try:
            net2 = roundtrip(net, case["path"], tmp)
        except Exception as e:
            vs.append(viol("roundtrip_raises", "%s: %s: %s" % (where, type(e).__name__, str(e)[:150]), exc=type(e).__name__, **tag))
            return {"status": "ok", "violations": vs, "nontrivial": True, "sig": core.jhash(case)}
        compare_nets(net, net2, vs, where, tag)
        try:
            if not pp.nets_equal(net, net2):
                # cause: is the infinite default storage bound (inf -> NaN through JSON) the only difference?
                cause = "other"
                if "mass_storage" in net and len(net.mass_storage) and "mass_storage" in net2:
                    a_, b_ = copy.deepcopy(net), copy.deepcopy(net2)
                    for n_ in (a_, b_):
                        col = n_.mass_storage["max_m_stored_kg"].astype(float)
                        n_.mass_storage["max_m_stored_kg"] = col.replace([np.inf], np.nan).fillna(-1.0)
                    if pp.nets_equal(a_, b_):
                        cause = "mass_storage_inf"
                vs.append(viol("nets_equal_false", "%s: pandapipes.nets_equal(original, loaded) is False" % where, cause=cause, **tag))
        except Exception as e:
            vs.append(viol("nets_equal_raises", "%s: %s" % (where, e), **tag))
        # same calculation results
        ra = rb = None
        try:
            pp.pipeflow(net, use_numba=False)
            ra = {k: net[k].values.astype(float) for k in net.keys() if k.startswith("res_") and isinstance(net[k], pd.DataFrame) and len(net[k])}
        except Exception as e:
            ra = "raised:" + type(e).__name__
        try:
            pp.pipeflow(net2, use_numba=False)
            rb = {k: net2[k].values.astype(float) for k in net2.keys() if k.startswith("res_") and isinstance(net2[k], pd.DataFrame) and len(net2[k])}
        except Exception as e:
            rb = "raised:" + type(e).__name__
        if isinstance(ra, str) or isinstance(rb, str):
            if ra != rb and not (isinstance(ra, str) and isinstance(rb, str)):
                vs.append(viol("pipeflow_verdict_differs", "%s: original %s, loaded %s" % (where, ra if isinstance(ra, str) else "ok",
                               rb if isinstance(rb, str) else "ok"), **tag))
        else:
            for k in ra:
                if k not in rb or ra[k].shape != rb[k].shape or not np.all((np.isnan(ra[k]) & np.isnan(rb[k])) | (ra[k] == rb[k])):
                    vs.append(viol("pipeflow_results_differ", "%s: %s differs after loading" % (where, k), table=k, **tag))
                    break
    finally:
        shutil.rmtree(tmp, ignore_errors=True)
    return {"status": "ok", "violations": vs, "nontrivial": True, "sig": core.jhash(case)}
