"""C01 - mass conservation at every supplied junction and globally.
Exhaustive enumeration of scope H (skeleton x feeder x fluid x deviation-bounded component alphabet),
oracle = junction-wise and global balance recomputed from the res_* tables only."""
import numpy as np
from mc import core, spec, scopes
from mc.core import viol
from mc.oracles import mass
import pandapipes as pp

ID = "C01"
LEVEL = "exploration"
RULE = ("scope H: all connected multigraph skeletons (n<=N junctions, e<=E branches, up to isomorphism) x every "
        "feeder position x {water, lgas} x every point within d deviations of the base in the component/load/"
        "height/in_service/feeder/label/friction/numba/damping alphabet (DESIGN 3); plus the hydraulic stage of "
        "thermal loops with circulation pumps. Non-trivial = pipeflow returned, >=1 junction of degree>=3 or with "
        ">=2 node elements, some |mdot|>1e-6; distinct = distinct rounded flow signature.")
ASSUMPTIONS = ["results are read from res_* tables and junction columns of the element tables only",
               "tight solver tolerances (1e-11) so that round-off, not tolerance, bounds the imbalance",
               "non-converged cases are skipped and counted (coverage floor 50%)"]
MIN_OK_FRACTION = 0.5
TOL = 1e-9


def warmup():
    spec.warmup_numba()


def loop_cases():
    out = []
    for k in (1, 2, 3):
        for pump in ("circ_pump_pressure", "circ_pump_mass"):
            for rung in ("heat_consumer", "fc_hex", "hex"):
                for load in (None, "sink", "source"):
                    for oos in (None, 0):
                        for eg in (None, "flow", "mid"):
                            # an ext grid on the return side over-determines a pressure pump; a load needs a slack
                            if (eg is None and load) or (eg == "mid" and pump != "circ_pump_mass"):
                                continue
                            out.append({"scope": "L", "k": k, "pump": pump, "rung": rung, "load": load, "oos": oos,
                                        "eg": eg})
    return out


def loop_spec(c):
    k = c["k"]
    ops = []
    for i in range(k + 1):
        ops.append({"op": "junction", "id": "s%d" % i, "pn_bar": 5.0, "tfluid_k": 350.0})
        ops.append({"op": "junction", "id": "r%d" % i, "pn_bar": 5.0, "tfluid_k": 350.0})
    p = {"op": c["pump"], "id": "cp", "return": "r0", "flow": "s0", "p_flow_bar": 5.0, "t_flow_k": 350.0}
    if c["pump"] == "circ_pump_mass":
        p["mdot"] = 0.6 * k
    else:
        p["plift_bar"] = 1.0
    ops.append(p)
    for i in range(k):
        ops.append({"op": "pipe", "id": "ps%d" % i, "from": "s%d" % i, "to": "s%d" % (i + 1), "length_km": 0.2,
                    "d_mm": 60.0, "u": 10.0})
        ops.append({"op": "pipe", "id": "pr%d" % i, "from": "r%d" % (i + 1), "to": "r%d" % i, "length_km": 0.2,
                    "d_mm": 60.0, "u": 10.0})
    for i in range(1, k + 1):
        ins = c["oos"] != i - 1 or k == 1
        if c["rung"] == "heat_consumer":
            ops.append({"op": "heat_consumer", "id": "hc%d" % i, "from": "s%d" % i, "to": "r%d" % i,
                        "qext_w": 20000.0, "controlled_mdot_kg_per_s": 0.3 + 0.1 * i, "in_service": ins})
        elif c["rung"] == "fc_hex":
            ops.append({"op": "junction", "id": "m%d" % i, "pn_bar": 5.0, "tfluid_k": 350.0})
            ops.append({"op": "flow_control", "id": "fc%d" % i, "from": "s%d" % i, "to": "m%d" % i,
                        "mdot": 0.3 + 0.1 * i, "in_service": ins})
            ops.append({"op": "heat_exchanger", "id": "hx%d" % i, "from": "m%d" % i, "to": "r%d" % i,
                        "qext_w": 15000.0})
        else:
            ops.append({"op": "heat_exchanger", "id": "hx%d" % i, "from": "s%d" % i, "to": "r%d" % i,
                        "qext_w": 15000.0, "zeta": 50.0 * i, "in_service": ins})
    if c["load"]:
        ops.append({"op": c["load"], "id": "ld", "junction": "s%d" % k, "mdot": 0.05})
    if c.get("eg"):
        ops.append({"op": "ext_grid", "id": "eg", "junction": {"flow": "s0", "return": "r0", "mid": "r%d" % k}[c["eg"]],
                    "p_bar": 5.0 if c["eg"] == "flow" else 4.0, "t_k": 350.0, "type": "p"})
    return {"fluid": "water", "ops": ops}, {}


def cases(tier):
    if tier == "quick":
        cs = scopes.h_cases(3, 3, 1) + scopes.h_cases(4, 4, 1, nmin=4, edge_only_above=3)
    else:
        # d<=2 in full on the skeletons with <=3 junctions, all pairs of branch kinds on the 4-junction skeletons,
        # d<=1 on the skeletons with 5 branches
        cs = scopes.h_cases(3, 3, 2) + scopes.h_cases(4, 5, 1, nmin=4) + scopes.h_cases(
            4, 4, 2, nmin=4, with_config=False, with_labels=False, edge_only_above=3)
    tr = [dict(c, transient=True) for c in loop_cases() if c["oos"] is None and c["load"] in (None, "sink")]
    return cs + loop_cases() + tr


def run_case(case):
    if case["scope"] == "H":
        sp, opts = scopes.h_spec(case)
    else:
        sp, opts = loop_spec(case)
    try:
        net, idmap = spec.build(sp)
    except Exception as e:
        return {"status": "build_error:" + type(e).__name__, "violations": []}
    kw = dict(spec.TIGHT)
    kw.update(opts)
    if case.get("transient"):
        # three consecutive transient time steps re-using the internal tables of the previous step
        net.junction["pn_bar"] = 1.0
        kw["mode"] = "sequential"
        allv, info, sig = [], {}, []
        for step in range(3):
            try:
                # the residual of the transient heat balance does not get below ~1e-7 W: tol_res as tight as for the
                # steady calculations would only turn every case into "not converged"
                pp.pipeflow(net, transient=True, dt=60.0, simulation_time_step=step, **dict(kw, tol_res=1e-6))
            except Exception as e:
                return {"status": "raised:" + type(e).__name__, "violations": allv}
            r = check_net(net, case)
            for v in r["violations"]:
                v["detail"] = "transient step %d: %s" % (step, v["detail"])
            allv += r["violations"]
            sig.append(r["sig"])
        return {"status": "ok", "violations": allv, "nontrivial": True, "sig": core.jhash(sig), "info": {"transient_steps": 3}}
    damped = kw.get("alpha", 1.0) < 1.0
    if damped:
        # with the solver's default tolerances: the imbalance has to stay at round-off level, not at tolerance level
        kw = dict(opts, max_iter_hyd=200)
    try:
        pp.pipeflow(net, **kw)
    except Exception as e:
        return {"status": "raised:" + type(e).__name__, "violations": []}
    r = check_net(net, case)
    if damped:
        for v in r["violations"]:
            v["tags"]["damped"] = True
    return r


def check_net(net, case):
    inj, tot, kinds, glob = mass.junction_balance(net)
    pj = net.res_junction.p_bar
    vs = []
    nontrivial = False
    touched = {}
    sig = []
    for j in net.junction.index:
        if np.isnan(pj[j]):
            continue
        imb = inj.get(j, 0.0)
        scale = max(1.0, tot.get(j, 0.0))
        sig.append(round(tot.get(j, 0.0), 7))
        if not abs(imb) <= TOL * scale:
            vs.append(viol("junction_balance", "junction %s imbalance %.3e (sum|flows| %.3e), elements %s" % (
                j, imb, tot.get(j, 0.0), sorted(kinds.get(j, []))), kinds="+".join(sorted(kinds.get(j, [])))))
        if len(kinds.get(j, ())) >= 1 and tot.get(j, 0.0) > 1e-6:
            for kk in kinds[j]:
                touched["bal_" + kk] = touched.get("bal_" + kk, 0) + 1
    # global: total feed-in of pressure fixing elements = consumption - injection
    feed = glob["feed"]
    for t in ("circ_pump_mass", "circ_pump_pressure"):
        if t in net and len(net[t]):
            r = net["res_" + t]
            feed += -np.nansum(r.mdot_from_kg_per_s.values + r.mdot_to_kg_per_s.values)
    if not abs(feed - glob["cons"]) <= TOL * max(1.0, glob["abs"]):
        vs.append(viol("global_balance", "feed-in %.12g vs consumption-injection %.12g" % (feed, glob["cons"])))
    # mdot_to = -mdot_from for every branch row (no storage inside a branch)
    for t in mass.FROM_TO.keys() | {"valve"}:
        if t in net and len(net[t]):
            r = net["res_" + t]
            s = (r.mdot_from_kg_per_s + r.mdot_to_kg_per_s).abs()
            m = r.mdot_from_kg_per_s.abs()
            bad = s > TOL * np.maximum(1.0, m)
            if bad.any():
                vs.append(viol("branch_in_out", "%s rows %s: mdot_from+mdot_to=%s" % (t, list(r.index[bad]), list(s[bad])),
                               table=t))
    deg = {}
    for j, ks in kinds.items():
        deg[j] = len(ks)
    big = max(tot.values()) if tot else 0.0
    nontrivial = big > 1e-6 and len(net.junction) >= 3
    return {"status": "ok", "violations": vs, "nontrivial": nontrivial, "sig": core.jhash(sorted(sig)),
            "info": touched}
