"""C11 - heat exchangers, consumers and circulation pumps report consistent heat duties.
Ladder loops with k rungs, every assignment of the five heat-consumer specification modes (and exchanger rungs)
to the rungs, +-q, both thermal modes; oracle = duty identities per element and loop closure within the
cp-discretisation envelope."""
import itertools
import numpy as np
from mc import core, spec
from mc.core import viol
from mc.oracles import thermal
import pandapipes as pp

ID = "C11"
CASE_WEIGHT = 3   # relative cost of one case (pool sizing)
LEVEL = "exploration"
RULE = ("ladder loops (supply/return line, circulation pump pressure or mass, 1..k rungs): all assignments of rung kinds "
        "{consumer MF_QE, MF_DT, MF_TR, QE_DT, QE_TR, flow control + heat exchanger} to k<=2 (quick) / k<=3 (thorough) rungs "
        "x heat sign {+,-} for the first rung x pipe heat loss {0, 10 W/m2K} x mode {sequential, bidirectional} x numba. "
        "Non-trivial = returned and >=1 duty identity checked; distinct = distinct (kinds, signs, mode) with rounded duty "
        "signature.")
ASSUMPTIONS = ["tight solver options; duty identity to 1e-6 relative",
               "loop closure envelope: |q_pump - sum(q elements + pipe losses)| <= mdot*(cp_max-cp_min)*T_max + 2e-3*|q_pump| "
               "(the pump reports mdot*(cp(T1)T1-cp(T0)T0), the elements mdot*cp_mean*dT)",
               "set-points other than the mass flow are required in bidirectional mode, or when the mass flow is prescribed"]
MIN_OK_FRACTION = 0.3
KINDS = ["MF_QE", "MF_DT", "MF_TR", "QE_DT", "QE_TR", "FC_HX"]


def warmup():
    spec.warmup_numba()


def cases(tier):
    out = []
    kmax = 2 if tier == "quick" else 3
    for k in range(1, kmax + 1):
        for kinds in itertools.product(KINDS, repeat=k):
            for sign in (1, -1):
                for u in (10.0, 0.0):
                    for pump in ("circ_pump_pressure", "circ_pump_mass"):
                        for mode in ("sequential", "bidirectional"):
                            for numba in ((False, True) if tier == "thorough" and k < 3 else (False,)):
                                if pump == "circ_pump_mass" and u == 0.0 and tier == "quick":
                                    continue
                                out.append({"k": k, "kinds": list(kinds), "sign": sign, "u": u, "pump": pump, "mode": mode,
                                            "numba": numba})
                                # consumer table labelled in reverse, one extra switched-off consumer in its first row
                                if sum(kd != "FC_HX" for kd in kinds) >= 1 and numba is False and sign == 1:
                                    out.append({"k": k, "kinds": list(kinds), "sign": sign, "u": u, "pump": pump, "mode": mode,
                                                "numba": numba, "variant": "oos_rev"})
    return out


def ladder_spec(c):
    k = c["k"]
    T0 = 360.0
    ops = []
    for i in range(k + 1):
        # supply side starts at the feed temperature: a consumer given by heat and return temperature derives its mass
        # flow from the start temperature in sequential mode and needs start > return temperature to be calculable
        ops.append({"op": "junction", "id": "s%d" % i, "pn_bar": 5.0, "tfluid_k": T0})
        ops.append({"op": "junction", "id": "r%d" % i, "pn_bar": 5.0, "tfluid_k": 330.0})
    p = {"op": c["pump"], "id": "cp", "return": "r0", "flow": "s0", "p_flow_bar": 6.0, "t_flow_k": T0, "type": "pt"}
    if c["pump"] == "circ_pump_mass":
        p["mdot"] = 1.2 * k
    else:
        p["plift_bar"] = 2.0
    ops.append(p)
    for i in range(k):
        ops.append({"op": "pipe", "id": "ps%d" % i, "from": "s%d" % i, "to": "s%d" % (i + 1), "length_km": 0.4, "d_mm": 80.0,
                    "u": c["u"], "text_k": 280.0, "sections": 2 if i == 0 else 1})
        ops.append({"op": "pipe", "id": "pr%d" % i, "from": "r%d" % (i + 1), "to": "r%d" % i, "length_km": 0.4, "d_mm": 80.0,
                    "u": c["u"], "text_k": 280.0})
    variant = c.get("variant")
    n_hc = sum(kd != "FC_HX" for kd in c["kinds"])
    if variant == "oos_rev":
        ops.append({"op": "heat_consumer", "id": "hc_off", "from": "s1", "to": "r1", "controlled_mdot_kg_per_s": 0.3, "qext_w": 50000.0,
                    "in_service": False, "index": n_hc})
    for i, kind in enumerate(c["kinds"], start=1):
        sgn = c["sign"] if i == 1 else 1
        q = 60000.0 * sgn / i
        m = 0.8 / i
        a, b = "s%d" % i, "r%d" % i
        if kind == "MF_QE":
            ops.append({"op": "heat_consumer", "id": "hc%d" % i, "from": a, "to": b, "controlled_mdot_kg_per_s": m, "qext_w": q})
        elif kind == "MF_DT":
            ops.append({"op": "heat_consumer", "id": "hc%d" % i, "from": a, "to": b, "controlled_mdot_kg_per_s": m, "deltat_k": 18.0 * sgn})
        elif kind == "MF_TR":
            ops.append({"op": "heat_consumer", "id": "hc%d" % i, "from": a, "to": b, "controlled_mdot_kg_per_s": m,
                        "treturn_k": 335.0 if sgn > 0 else 372.0})
        elif kind == "QE_DT":
            ops.append({"op": "heat_consumer", "id": "hc%d" % i, "from": a, "to": b, "qext_w": q, "deltat_k": 20.0 * sgn})
        elif kind == "QE_TR":
            ops.append({"op": "heat_consumer", "id": "hc%d" % i, "from": a, "to": b, "qext_w": abs(q), "treturn_k": 338.0})
        else:
            ops.append({"op": "junction", "id": "m%d" % i, "pn_bar": 5.0, "tfluid_k": 330.0})
            ops.append({"op": "flow_control", "id": "fc%d" % i, "from": a, "to": "m%d" % i, "mdot": m})
            ops.append({"op": "heat_exchanger", "id": "hx%d" % i, "from": "m%d" % i, "to": b, "qext_w": q, "d_mm": 60.0})
    if variant == "oos_rev":
        pos = 0
        for o in ops:
            if o["op"] == "heat_consumer" and o["id"] != "hc_off":
                o["index"] = n_hc - 1 - pos
                pos += 1
    # a mass-flow pump prescribes the total flow: one uncontrolled exchanger rung at the end takes what the other rungs leave
    if c["pump"] == "circ_pump_mass":
        ops.append({"op": "heat_exchanger", "id": "hx_free", "from": "s%d" % k, "to": "r%d" % k, "qext_w": 15000.0, "d_mm": 60.0})
    return {"fluid": "water", "ops": ops}


def run_case(case):
    sp = ladder_spec(case)
    try:
        net, idmap = spec.build(sp)
    except Exception as e:
        return {"status": "build_error:" + type(e).__name__, "violations": []}
    kw = dict(spec.TIGHT)
    kw.update(mode=case["mode"], use_numba=case["numba"])
    try:
        pp.pipeflow(net, **kw)
    except Exception as e:
        return {"status": "raised:" + type(e).__name__, "violations": []}
    return check_net(net, case, idmap)


def check_net(net, case, idmap):
    fluid = net.fluid
    vs = []
    info = {}
    bidir = case["mode"] == "bidirectional"
    cp = lambda t: float(fluid.get_heat_capacity(t))
    sig = []

    def cnt(k):
        info[k] = info.get(k, 0) + 1
    q_elements = 0.0
    temps = []
    tag = {"mode": case["mode"]}
    if len(net.heat_consumer):
        for idx, r in net.heat_consumer.iterrows():
            rr = net.res_heat_consumer.loc[idx]
            if not r.in_service:
                if not (np.isnan(rr.qext_w) and np.isnan(rr.deltat_k)):
                    vs.append(viol("inactive_consumer_reports_duty", "switched-off consumer %s reports qext_w %r, deltat_k %r" % (
                        idx, rr.qext_w, rr.deltat_k), **tag))
                continue
            if np.isnan(rr.mdot_from_kg_per_s):
                continue
            kind = [k for k, i in zip(case["kinds"], range(1, 9)) if "hc%d" % i in idmap and idmap["hc%d" % i][1] == idx][0]
            m = rr.mdot_from_kg_per_s
            t_in = rr.t_from_k if m >= 0 else rr.t_to_k
            cpm = (cp(t_in) + cp(rr.t_outlet_k)) / 2
            duty = m * cpm * (t_in - rr.t_outlet_k)
            temps += [t_in, rr.t_outlet_k]
            q_elements += rr.qext_w
            cnt("consumer_" + kind)
            sig.append((kind, round(rr.qext_w, 1), round(m, 5)))
            if not abs(rr.qext_w - duty) <= 1e-6 * max(1.0, abs(duty), abs(rr.qext_w)):
                vs.append(viol("duty_identity", "consumer %s (%s, %s): qext_w %.6f, mdot*cp_mean*(t_from-t_outlet) = %.6f" % (
                    idx, kind, case["mode"], rr.qext_w, duty), kind=kind, element="heat_consumer", **tag))
            if not abs(rr.deltat_k - (t_in - rr.t_outlet_k)) <= 1e-8:
                vs.append(viol("deltat_reported", "consumer %s: deltat_k %.9f, t_from-t_outlet %.9f" % (idx, rr.deltat_k, t_in - rr.t_outlet_k),
                               kind=kind, **tag))
            mass_prescribed = kind.startswith("MF")
            if mass_prescribed and not abs(m - r.controlled_mdot_kg_per_s) <= 1e-9:
                vs.append(viol("setpoint_mdot", "consumer %s (%s): mdot %.9f, set %.9f" % (idx, kind, m, r.controlled_mdot_kg_per_s), kind=kind, **tag))
            if mass_prescribed or bidir:
                if kind in ("MF_QE", "QE_DT", "QE_TR") and not abs(rr.qext_w - r.qext_w) <= 1e-6 * max(1, abs(r.qext_w)):
                    vs.append(viol("setpoint_qext", "consumer %s (%s): qext_w %.6f, set %.6f" % (idx, kind, rr.qext_w, r.qext_w), kind=kind, **tag))
                if kind in ("MF_DT", "QE_DT") and not abs(rr.deltat_k - r.deltat_k) <= 1e-6:
                    vs.append(viol("setpoint_deltat", "consumer %s (%s): deltat_k %.8f, set %.8f" % (idx, kind, rr.deltat_k, r.deltat_k), kind=kind, **tag))
                if kind in ("MF_TR", "QE_TR") and not abs(rr.t_outlet_k - r.treturn_k) <= 1e-6:
                    vs.append(viol("setpoint_treturn", "consumer %s (%s): t_outlet_k %.8f, set %.8f" % (idx, kind, rr.t_outlet_k, r.treturn_k), kind=kind, **tag))
    if len(net.heat_exchanger):
        for idx, r in net.heat_exchanger.iterrows():
            rr = net.res_heat_exchanger.loc[idx]
            m = rr.mdot_from_kg_per_s
            if np.isnan(m) or abs(m) < 1e-9:
                continue
            t_in = rr.t_from_k if m >= 0 else rr.t_to_k
            cpm = (cp(t_in) + cp(rr.t_outlet_k)) / 2
            duty = abs(m) * cpm * (t_in - rr.t_outlet_k)
            temps += [t_in, rr.t_outlet_k]
            q_elements += r.qext_w
            cnt("exchanger")
            if not abs(r.qext_w - duty) <= 1e-6 * max(1.0, abs(duty)):
                vs.append(viol("duty_identity", "exchanger %s: qext_w %.6f, mdot*cp_mean*(t_from-t_outlet) = %.6f" % (idx, r.qext_w, duty),
                               kind="HX", element="heat_exchanger", **tag))
    # pipe losses per section
    q_pipes = 0.0
    for pos, idx in enumerate(net.pipe.index):
        rr = net.res_pipe.loc[idx]
        m = rr.mdot_from_kg_per_s
        if np.isnan(m) or abs(m) < 1e-9:
            continue
        ns = int(net.pipe.at[idx, "sections"])
        _, tin = spec.internal_nodes(net, pos, ns)
        chain = ([rr.t_from_k] + list(tin)) if m > 0 else ([rr.t_to_k] + list(tin[::-1]))
        chain.append(rr.t_outlet_k)
        temps += chain
        for a, b in zip(chain[:-1], chain[1:]):
            q_pipes += abs(m) * (cp(a) + cp(b)) / 2 * (a - b)
    for t in ("circ_pump_mass", "circ_pump_pressure"):
        if t in net and len(net[t]):
            for idx, r in net[t].iterrows():
                rr = net["res_" + t].loc[idx]
                if np.isnan(rr.mdot_from_kg_per_s):
                    continue
                m = rr.mdot_from_kg_per_s
                cnt("pump")
                if not abs(rr.deltat_k - (rr.t_from_k - rr.t_outlet_k)) <= 1e-8:
                    vs.append(viol("pump_deltat", "%s %s: deltat_k %.9f, t_from-t_outlet %.9f" % (t, idx, rr.deltat_k, rr.t_from_k - rr.t_outlet_k), **tag))
                temps += [rr.t_from_k, rr.t_outlet_k]
                cps = [cp(x) for x in temps]
                env = 1.02 * abs(m) * (max(cps) - min(cps)) * max(temps) + 2e-3 * abs(rr.qext_w) + 1e-6
                total = q_elements + q_pipes
                sig.append(("pump", round(rr.qext_w, 0)))
                if not abs(rr.qext_w - total) <= env:
                    vs.append(viol("loop_closure", "%s %s reports %.3f W, consumers+exchangers %.3f W + pipe losses %.3f W = %.3f W "
                                   "(difference %.3f W, envelope %.3f W)" % (t, idx, rr.qext_w, q_elements, q_pipes, total,
                                                                            rr.qext_w - total, env), **tag))
    return {"status": "ok", "violations": vs, "nontrivial": bool(info), "sig": core.jhash([case["kinds"], case["sign"], case["mode"], sig]),
            "info": info}
