"""C19 - fluid and standard-type libraries return what their data and documentation say.
Exhaustive over the shipped data: every library fluid x property x query point class x query shape; integrals of
every property class on a limit grid; mixture rules on a composition grid; every pump type on a flow grid; every
row of the pipe standard-type library."""
import os
import itertools
import numpy as np
import pandas as pd
from mc import core
from mc.core import viol
import pandapipes as pp
from pandapipes.properties import fluids as FL, properties_toolbox as PT
from pandapipes.std_types.std_type_class import PumpStdType

ID = "C19"
CASE_WEIGHT = 2   # relative cost of one case (pool sizing)
LEVEL = "exploration"
RULE = ("all library fluids (liquids and gases) x {density, viscosity, heat_capacity} at every tabulated x, every midpoint "
        "and two points beyond each end x query shape {float, 0-d, 1-d, 2-d array, Series, list}; compressibility / derivative "
        "pairs; get_at_integral_value of every property class (interpolated, constant, linear, polynomial) on a grid of "
        "limits (equal, swapped, spanning knots, outside the table) as scalar / array / Series; mixture rules on the simplex "
        "grid (step 0.25, 2-3 components, 1-d and 2-d); every pump type (P1-P3, from lists, from coefficients) on a flow grid "
        "(negative, zero, positive, beyond the curve) as scalar and as arrays; every row of Pipe.csv through create_pipe. "
        "Non-trivial = an oracle comparison was made; distinct = distinct (object, query class, shape).")
ASSUMPTIONS = ["the data files under src/pandapipes/properties and std_types/library are the ground truth (read by the harness "
               "with its own parser)", "piecewise-linear interpolation / linear continuation computed by harness code"]
PROPDIR = os.path.join(os.path.dirname(FL.__file__))
LIBDIR = os.path.join(os.path.dirname(os.path.dirname(FL.__file__)), "std_types", "library")
FLUIDS = ["water", "air", "lgas", "hgas", "hydrogen", "methane", "biomethane_pure", "biomethane_treated"]


def read_table(path):
    rows = []
    for line in open(path):
        line = line.strip()
        if not line or line.startswith("#"):
            continue
        rows.append([float(x) for x in line.replace(";", " ").replace(",", " ").split()])
    return rows


def lin_interp(xs, ys, x):
    """own piecewise linear interpolation with linear continuation of the end segments"""
    xs, ys = list(xs), list(ys)
    if x <= xs[0]:
        i = 0
    elif x >= xs[-1]:
        i = len(xs) - 2
    else:
        i = max(k for k in range(len(xs) - 1) if xs[k] <= x)
    return ys[i] + (ys[i + 1] - ys[i]) * (x - xs[i]) / (xs[i + 1] - xs[i])


def exact_integral(xs, ys, a, b):
    """exact integral of the piecewise-linear interpolant (with linear continuation) from a to b"""
    if a == b:
        return 0.0
    sign = 1.0
    if a > b:
        a, b, sign = b, a, -1.0
    pts = sorted(set([a, b] + [x for x in xs if a < x < b]))
    tot = 0.0
    for u, v in zip(pts[:-1], pts[1:]):
        tot += (lin_interp(xs, ys, u) + lin_interp(xs, ys, v)) / 2 * (v - u)
    return sign * tot


SHAPES = ["float", "zero_d", "one_d", "two_d", "series", "list"]


def shaped(vals, shape):
    vals = list(vals)
    if shape == "float":
        return [float(v) for v in vals], True
    if shape == "zero_d":
        return [np.array(float(v)) for v in vals], True
    if shape == "one_d":
        return [np.array(vals, dtype=float)], False
    if shape == "two_d":
        n = len(vals) - len(vals) % 2
        return [np.array(vals[:n], dtype=float).reshape(2, -1)], False
    if shape == "series":
        return [pd.Series(vals, index=range(10, 10 + len(vals)), dtype=float)], False
    return [list(map(float, vals))], False


def cases(tier):
    out = []
    for f in FLUIDS:
        for prop in ("density", "viscosity", "heat_capacity"):
            for shape in SHAPES:
                out.append({"kind": "table", "fluid": f, "prop": prop, "shape": shape})
        out.append({"kind": "compressibility", "fluid": f})
        out.append({"kind": "integral_lib", "fluid": f})
    out.append({"kind": "integral_classes"})
    for ncomp in (2, 3):
        out.append({"kind": "mixture", "ncomp": ncomp})
    for p in ("P1", "P2", "P3", "from_list", "from_coeff", "falling"):
        out.append({"kind": "pump", "type": p})
    rows = read_pipe_csv()
    step = 20
    for i in range(0, len(rows), step):
        out.append({"kind": "pipe_std", "start": i, "stop": min(len(rows), i + step)})
    return out


def read_pipe_csv():
    import csv
    with open(os.path.join(LIBDIR, "Pipe.csv")) as f:
        return list(csv.DictReader(f, delimiter=";"))


def run_case(case):
    vs = []
    n = 0
    k = case["kind"]
    if k == "table":
        fluid = FL.call_lib(case["fluid"])
        path = os.path.join(PROPDIR, case["fluid"], case["prop"] + ".txt")
        tab = read_table(path)
        xs = [r[0] for r in tab]
        ys = [r[1] for r in tab]
        mids = [(a + b) / 2 for a, b in zip(xs[:-1], xs[1:])]
        outside = [xs[0] - 25.0, xs[0] - 3.0, xs[-1] + 3.0, xs[-1] + 40.0]
        getter = {"density": fluid.get_density, "viscosity": fluid.get_viscosity, "heat_capacity": fluid.get_heat_capacity}[case["prop"]]
        for cls, pts in (("knot", xs), ("mid", mids), ("outside", outside)):
            queries, scalar = shaped(pts, case["shape"])
            for q in queries:
                try:
                    got = getter(q)
                except Exception as e:
                    vs.append(viol("query_raises", "%s.%s(%s %s) raises %s: %s" % (case["fluid"], case["prop"], case["shape"], cls,
                                   type(e).__name__, str(e)[:100]), prop=case["prop"], shape=case["shape"]))
                    continue
                qa = np.asarray(q, dtype=float)
                ga = np.asarray(got, dtype=float)
                n += 1
                if ga.shape != qa.shape:
                    vs.append(viol("shape", "%s.%s: query shape %s (%s), result shape %s" % (case["fluid"], case["prop"], qa.shape,
                                   case["shape"], ga.shape), prop=case["prop"], shape=case["shape"]))
                    continue
                want = np.array([lin_interp(xs, ys, float(x)) for x in qa.ravel()]).reshape(qa.shape)
                if not np.allclose(ga, want, rtol=1e-12, atol=0):
                    i = int(np.argmax(np.abs(ga - want).ravel()))
                    vs.append(viol("table_value", "%s.%s at %s (%s point): %r, data file says %r" % (
                        case["fluid"], case["prop"], qa.ravel()[i], cls, ga.ravel()[i], want.ravel()[i]),
                        prop=case["prop"], point=cls, fluid=case["fluid"]))
    elif k == "compressibility":
        f = case["fluid"]
        fluid = FL.call_lib(f)
        slope, offset = read_table(os.path.join(PROPDIR, f, "compressibility.txt"))[0][:2] if len(
            read_table(os.path.join(PROPDIR, f, "compressibility.txt"))[0]) >= 2 else (None, None)
        rows = read_table(os.path.join(PROPDIR, f, "compressibility.txt"))
        flat = [x for r in rows for x in r]
        slope, offset = flat[0], flat[1]
        der = [x for r in read_table(os.path.join(PROPDIR, f, "der_compressibility.txt")) for x in r][0]
        n += 1
        if abs(slope - der) > 1e-15:
            vs.append(viol("compressibility_slope", "%s: slope of compressibility.txt %r, der_compressibility.txt %r" % (f, slope, der), fluid=f))
        for p in (0.0, 1.0, 16.0, 80.0):
            for q in (p, np.array([p, 2 * p]), pd.Series([p, p + 1.0])):
                got = np.asarray(fluid.get_compressibility(q), dtype=float)
                want = offset + slope * np.asarray(q, dtype=float)
                n += 1
                if got.shape != np.asarray(q, dtype=float).shape or not np.allclose(got, want, rtol=1e-13):
                    vs.append(viol("compressibility_value", "%s: K(%s) = %s, file says %s" % (f, q, got, want), fluid=f))
        d = fluid.get_der_compressibility()
        if abs(float(np.asarray(d).ravel()[0]) - der) > 1e-15:
            vs.append(viol("compressibility_der", "%s: get_der_compressibility %r, file %r" % (f, d, der), fluid=f))
        # finite-difference slope of the compressibility equals the stored derivative
        fd = (float(np.asarray(fluid.get_compressibility(11.0)).ravel()[0]) - float(np.asarray(fluid.get_compressibility(1.0)).ravel()[0])) / 10
        if abs(fd - float(np.asarray(d).ravel()[0])) > 1e-12:
            vs.append(viol("compressibility_slope", "%s: slope of get_compressibility %r, stored derivative %r" % (f, fd, d), fluid=f))
    elif k == "integral_lib":
        f = case["fluid"]
        fluid = FL.call_lib(f)
        for prop in ("density", "heat_capacity", "viscosity"):
            tab = read_table(os.path.join(PROPDIR, f, prop + ".txt"))
            xs = [r[0] for r in tab]
            ys = [r[1] for r in tab]
            grid = sorted(set([xs[0] - 10, xs[0], (xs[0] + xs[1]) / 2, xs[1], xs[len(xs) // 2], xs[-1], xs[-1] + 15]))
            obj = fluid.all_properties[prop]
            n += check_integrals(obj, grid, vs, "%s.%s" % (f, prop), exact=lambda a, b: exact_integral(xs, ys, b, a))  # (upper, lower)
    elif k == "integral_classes":
        grid = [250.0, 280.0, 300.0, 300.0, 345.0, 400.0]
        objs = {
            "constant": (FL.FluidPropertyConstant(4180.0), lambda a, b: 4180.0 * (a - b)),
            "linear": (FL.FluidPropertyLinear(-0.0022, 1.0), lambda a, b: (1.0 * a - 0.0011 * a * a) - (1.0 * b - 0.0011 * b * b)),
            "polynomial": (FL.FluidPropertyPolynominal([260, 280, 300, 330, 360], [4.2, 4.19, 4.18, 4.185, 4.2], 2), None),
            "interextra": (FL.FluidPropertyInterExtra([260, 300, 340, 380], [1.0, 3.0, 2.0, 2.5]),
                           lambda a, b: exact_integral([260, 300, 340, 380], [1.0, 3.0, 2.0, 2.5], b, a)),
        }
        for name, (obj, ex) in objs.items():
            n += check_integrals(obj, sorted(set(grid)), vs, name, exact=ex)
    elif k == "mixture":
        nc = case["ncomp"]
        molar_mass = np.array([16.04, 2.016, 44.01][:nc])
        dens = np.array([0.72, 0.09, 1.98][:nc])
        visc = np.array([1.1e-5, 0.9e-5, 1.5e-5][:nc])
        capa = np.array([2200.0, 14300.0, 850.0][:nc])
        grid = [g for g in itertools.product([0.0, 0.25, 0.5, 0.75, 1.0], repeat=nc) if abs(sum(g) - 1.0) < 1e-12]
        for g in grid:
            x = np.array(g)
            n += 1
            w = PT.calculate_mass_fraction_from_molar_fraction(x, molar_mass)
            if abs(w.sum() - 1.0) > 1e-12 or np.any(w < -1e-15):
                vs.append(viol("mixture_fractions", "mass fractions of molar %s: %s (sum %r)" % (g, w, w.sum())))
            # molar and mass forms are inverse: recover molar fractions from the mass fractions
            back = (w / molar_mass) / np.sum(w / molar_mass)
            if not np.allclose(back, x, atol=1e-12):
                vs.append(viol("mixture_inverse", "molar %s -> mass %s -> molar %s" % (g, w, back)))
            mm1 = PT.calculate_mixture_molar_mass(molar_mass, components_molar_proportions=x)
            mm2 = PT.calculate_mixture_molar_mass(molar_mass, components_mass_proportions=w)
            if abs(mm1 - mm2) > 1e-10 * mm1:
                vs.append(viol("mixture_molar_mass", "molar mass from molar fractions %r, from mass fractions %r (%s)" % (mm1, mm2, g)))
            for name, fn, comp, frac in (("density", PT.calculate_mixture_density, dens, w),
                                         ("heat_capacity", PT.calculate_mixture_heat_capacity, capa, w)):
                v1 = fn(comp, frac)
                comp2 = np.stack([comp, comp * 1.1, comp * 0.9], axis=1)
                v2 = fn(comp2, frac)
                act = comp[frac > 0]
                if not (act.min() - 1e-9 <= v1 <= act.max() + 1e-9):
                    vs.append(viol("mixture_bounds", "%s of %s = %r outside component range [%r, %r]" % (name, g, v1, act.min(), act.max()),
                                   rule=name))
                if np.shape(v2) != (3,) or not np.allclose(v2, [v1, v1 * 1.1, v1 * 0.9], rtol=1e-12):
                    vs.append(viol("mixture_2d", "%s 2-d form %s vs 1-d %r (%s)" % (name, v2, v1, g), rule=name))
            v1 = PT.calculate_mixture_viscosity(visc, x, molar_mass)
            v2 = PT.calculate_mixture_viscosity(np.stack([visc, visc * 1.2], axis=1), x, molar_mass)
            act = visc[x > 0]
            if not (act.min() * (1 - 1e-12) <= v1 <= act.max() * (1 + 1e-12)):
                vs.append(viol("mixture_bounds", "viscosity of %s = %r outside [%r, %r]" % (g, v1, act.min(), act.max()), rule="viscosity"))
            if np.shape(v2) != (2,) or not np.allclose(v2, [v1, v1 * 1.2], rtol=1e-12):
                vs.append(viol("mixture_2d", "viscosity 2-d form %s vs 1-d %r (%s)" % (v2, v1, g), rule="viscosity"))
    elif k == "pump":
        net = pp.create_empty_network(fluid="water")
        t = case["type"]
        if t in ("P1", "P2", "P3"):
            st = net.std_types["pump"][t]
        elif t == "from_list":
            st = PumpStdType.from_list("L", [0, 19, 83], [6.1, 5.8, 4.0], 2)
        elif t == "from_coeff":
            st = PumpStdType("C", np.array([-1e-3, 0.02, 5.0]))
        else:
            st = PumpStdType("F", np.array([-0.5, 1.0]))   # lift becomes negative beyond 2 m3/h
        par = np.asarray(st.reg_par, dtype=float)
        npow = np.arange(len(par), 0, -1) - 1

        def poly(v):
            return float(np.sum(par * (v * 3600) ** npow))
        vmax = 0.05
        flows = [-0.01, -1e-9, 0.0, 1e-6, 0.002, 0.01, 0.03, vmax, 0.2]
        scal = []
        for v in flows:
            got = st.get_pressure(v)
            want = 0.0 if v < 0 else max(0.0, poly(v))
            scal.append(float(got))
            n += 1
            if float(got) < 0:
                vs.append(viol("pump_negative_lift", "%s scalar flow %r: lift %r" % (t, v, got), query="scalar"))
            if abs(float(got) - want) > 1e-9 * max(1.0, abs(want)):
                vs.append(viol("pump_curve_value", "%s scalar flow %r: lift %r, polynomial says %r" % (t, v, got, want), query="scalar",
                               zero=v == 0.0, reverse=v < 0))
        for name, arr in (("all_positive", [v for v in flows if v > 0]), ("mixed_sign", flows), ("with_zero", [0.0, 0.002, 0.01])):
            try:
                got = np.asarray(st.get_pressure(np.array(arr)), dtype=float)
            except Exception as e:
                vs.append(viol("pump_array_raises", "%s array query (%s) raises %s: %s" % (t, name, type(e).__name__, str(e)[:80]), query=name))
                continue
            want = np.array([scal[flows.index(v)] for v in arr])
            n += 1
            if got.shape != want.shape or not np.allclose(got, want, rtol=1e-9, atol=1e-12):
                vs.append(viol("pump_scalar_vs_array", "%s array query (%s): %s, scalar queries %s" % (t, name, got, want), query=name,
                               negative=bool(np.any(got < 0))))
    elif k == "pipe_std":
        rows = read_pipe_csv()[case["start"]:case["stop"]]
        for r in rows:
            sectors = r["sector"].split(",")
            net = pp.create_empty_network(fluid="water")
            j = pp.create_junctions(net, 2, 5, 300)
            if r["std_type"] not in net.std_types["pipe"]:
                vs.append(viol("std_type_missing", "pipe std type %s of Pipe.csv not in net.std_types" % r["std_type"]))
                continue
            idx = pp.create_pipe(net, j[0], j[1], r["std_type"], 0.1)
            row = net.pipe.loc[idx]
            n += 1
            for col, key in (("inner_diameter_mm", "inner_diameter_mm"), ("outer_diameter_mm", "outer_diameter_mm"), ("k_mm", "k_mm")):
                want = float(r[key]) if r[key] not in ("", None) else np.nan
                got = row[col]
                if not ((np.isnan(want) and np.isnan(got)) or abs(got - want) <= 1e-12 * max(1, abs(want))):
                    vs.append(viol("pipe_std_parameter", "std type %s: net.pipe.%s = %r, Pipe.csv %s = %r" % (r["std_type"], col, got, key, want), col=col))
            # heat transfer coefficient: either given per m2, or per m (then referred to the outer surface)
            if r["u_w_per_m2k"] not in ("", None):
                want = float(r["u_w_per_m2k"])
            elif r["u_w_per_mk"] not in ("", None):
                want = float(r["u_w_per_mk"]) / (float(r["outer_diameter_mm"]) * np.pi) * 1000.0
            else:
                want = None
            if want is not None and abs(row["u_w_per_m2k"] - want) > 1e-12 * max(1, abs(want)):
                vs.append(viol("pipe_std_parameter", "std type %s: u_w_per_m2k %r, library implies %r" % (r["std_type"], row["u_w_per_m2k"], want),
                               col="u_w_per_m2k"))
            # an override for one pipe must neither change the library entry nor later pipes of the same type
            lib_before = dict(net.std_types["pipe"][r["std_type"]])
            pp.create_pipe(net, j[0], j[1], r["std_type"], 0.1, k_mm=1.5, u_w_per_m2k=7.0)
            idx3 = pp.create_pipe(net, j[0], j[1], r["std_type"], 0.1)
            lib_after = dict(net.std_types["pipe"][r["std_type"]])
            for key in lib_before:
                a_, b_ = lib_before[key], lib_after.get(key)
                if not ((isinstance(a_, float) and isinstance(b_, float) and np.isnan(a_) and np.isnan(b_)) or a_ == b_):
                    vs.append(viol("std_type_library_modified", "std type %s: library entry %s changed %r -> %r by creating a pipe with an override" % (
                        r["std_type"], key, a_, b_), key=key))
                    break
            if abs(net.pipe.at[idx3, "k_mm"] - float(r["k_mm"])) > 1e-12:
                vs.append(viol("pipe_std_parameter", "std type %s: a later pipe got k_mm %r, Pipe.csv says %r" % (r["std_type"], net.pipe.at[idx3, "k_mm"], r["k_mm"]),
                               col="k_mm_after_override"))
            if row["std_type"] != r["std_type"]:
                vs.append(viol("pipe_std_parameter", "std type column %r vs %r" % (row["std_type"], r["std_type"]), col="std_type"))
    return {"status": "ok", "violations": vs, "nontrivial": n > 0, "sig": core.jhash(case), "info": {"oracle_comparisons": n}}


def check_integrals(obj, grid, vs, label, exact=None):
    n = 0
    cls = type(obj).__name__

    def call(a, b):
        return obj.get_at_integral_value(a, b)
    vals = {}
    for a in grid:
        for b in grid:
            try:
                vals[(a, b)] = float(np.asarray(call(a, b), dtype=float).ravel()[0])
            except Exception as e:
                vs.append(viol("integral_raises", "%s (%s): integral(%r, %r) raises %s: %s" % (label, cls, a, b, type(e).__name__, str(e)[:80]),
                               cls=cls, query="scalar"))
                return n
    for (a, b), v in vals.items():
        n += 1
        scale = max(1e-12, max(abs(x) for x in vals.values()))
        if abs(v + vals[(b, a)]) > 1e-10 * scale:
            vs.append(viol("integral_antisymmetry", "%s (%s): I(%r,%r)=%r but I(%r,%r)=%r" % (label, cls, a, b, v, b, a, vals[(b, a)]), cls=cls))
            break
    done = False
    for a in grid:
        for b in grid:
            for c in grid:
                scale = max(1e-12, max(abs(x) for x in vals.values()))
                if abs(vals[(a, c)] - (vals[(a, b)] + vals[(b, c)])) > 1e-9 * scale:
                    vs.append(viol("integral_additivity", "%s (%s): I(%r,%r)=%r, I(%r,%r)+I(%r,%r)=%r" % (
                        label, cls, a, c, vals[(a, c)], a, b, b, c, vals[(a, b)] + vals[(b, c)]), cls=cls))
                    done = True
                    break
            if done:
                break
        if done:
            break
    if exact is not None:
        for (a, b), v in vals.items():
            w = exact(a, b)
            if abs(v - w) > 1e-9 * max(1.0, abs(w)):
                vs.append(viol("integral_value", "%s (%s): I(%r,%r)=%r, exact integral of the property %r" % (label, cls, a, b, v, w), cls=cls))
                break
    # shapes: arrays and Series element-wise equal to the scalar queries
    ups = np.array(grid[1:], dtype=float)
    los = np.array(grid[:-1], dtype=float)
    want = np.array([vals[(u, l)] for u, l in zip(ups, los)])
    for name, (u, l) in (("array", (ups, los)), ("series", (pd.Series(ups), pd.Series(los)))):
        try:
            got = np.asarray(call(u, l), dtype=float)
        except Exception as e:
            vs.append(viol("integral_raises", "%s (%s): %s limits raise %s: %s" % (label, cls, name, type(e).__name__, str(e)[:80]),
                           cls=cls, query=name))
            continue
        n += 1
        if got.shape != want.shape or not np.allclose(got, want, rtol=1e-10, atol=1e-12):
            vs.append(viol("integral_shape", "%s (%s): %s limits give %s, scalar queries %s" % (label, cls, name, got, want), cls=cls, query=name))
    return n
