"""C18 - the topology graph agrees with the solver about what is connected.
Consistent flag patterns of the C04 supersets x graph options; oracle = solver NaN pattern, own edge census and own
Dijkstra on the NetSpec."""
import copy
import heapq
import itertools
import numpy as np
from mc import core, spec
from mc.core import viol
from mc.oracles import supply
from mc.checks import c04
import pandapipes as pp
import pandapipes.topology as top
from pandapipes.pf.pipeflow_setup import PipeflowNotConverged

ID = "C18"
CASE_WEIGHT = 64   # relative cost of one case (pool sizing)
LEVEL = "exploration"
RULE = ("all consistent patterns (no in-service branch on an out-of-service junction, no feeder on an out-of-service "
        "junction) of the 2^k flag lattices of the four C04 superset networks x multi in {True, False}; for the all-on and "
        "single-flag-off patterns additionally every include_* / respect_status_* option combination with <=2 options "
        "changed (thorough: all patterns). Oracles: unsupplied_junctions + out-of-service = junctions without pressure "
        "result; connected components = the solver's islands; multigraph edge census (one edge per in-service junction-"
        "junction element, none for junction-pipe valves, pipe edge removed by a closed one); distances = own Dijkstra over "
        "pipe lengths. Non-trivial = pattern with >=1 element off; distinct = distinct (superset, pattern).")
ASSUMPTIONS = ["hydraulic islands = connected components under the reachability model of C04 (active flow controllers and heat "
               "consumers do not connect, one-way pressure controller treated as connecting for islands)",
               "edge weights: pipe length in km, 0 for every other element (documented default)"]

TABLE_KW = {"pipe": "pipes", "valve": "valves", "pump": "pumps", "compressor": "compressors", "press_control": "press_controls",
            "flow_control": "flow_controls", "heat_consumer": "heat_consumers", "heat_exchanger": "heat_exchangers",
            "circ_pump_mass": "mass_circ_pumps", "circ_pump_pressure": "pressure_circ_pumps"}
SIG_KW = ["pipes", "valves", "pumps", "press_controls", "mass_circ_pumps", "pressure_circ_pumps", "flow_controls", "heat_consumers",
          "compressors"]


def consistent(sp):
    byid = {o["id"]: o for o in sp["ops"]}
    jins = {o["id"]: o.get("in_service", True) for o in sp["ops"] if o["op"] == "junction"}
    for o in sp["ops"]:
        if o["op"] in supply.BRANCH_OPS:
            a, b = supply.ends(o)
            on = o.get("in_service", True) if o["op"] != "valve" else o.get("opened", True)
            if on and (not jins[a] or (b is not None and not jins[b])):
                return False
        if o["op"] in ("ext_grid", "sink", "source", "mass_storage") and o.get("in_service", True) and not jins[o["junction"]]:
            return False
    return True


def cases(tier):
    out = []
    for name in c04.SUPERSETS:
        k = (c04.QUICK_K if tier == "quick" else c04.THOROUGH_K)[name]
        k = min(k, 9 if tier == "quick" else 12)
        n = 2 ** k
        for start in range(0, n, 16):
            out.append({"superset": name, "k": k, "start": start, "stop": min(n, start + 16), "tier": tier})
    return out


def edge_census(sp, idmap, opts):
    """expected multigraph edges {(table, idx): (ju, jv, weight)} for the given options"""
    byid = {o["id"]: o for o in sp["ops"]}
    jidx = {o["id"]: idmap[o["id"]][1] for o in sp["ops"] if o["op"] == "junction"}
    jins = {o["id"]: o.get("in_service", True) for o in sp["ops"] if o["op"] == "junction"}
    an_pi = {}
    for o in sp["ops"]:
        if o["op"] == "valve" and o.get("et", "ju") == "pi":
            key = (o["from"], o["pipe"])
            an_pi[key] = an_pi.get(key, False) or o.get("opened", True)
    edges = {}
    for o in sp["ops"]:
        k = o["op"]
        if k not in supply.BRANCH_OPS:
            continue
        table, idx = idmap[o["id"]]
        kw = TABLE_KW[table]
        inc = opts.get("include_" + kw, True)
        if inc is False or (isinstance(inc, list) and idx not in inc):
            continue
        a, b = supply.ends(o)
        if b is None:
            continue  # a valve attached to a pipe adds no edge of its own
        # respect_status_branches_all, when given, overrides the per-component flags (also for the valves on pipes)
        allflag = opts.get("respect_status_branches_all", None)
        respect = opts.get("respect_status_" + kw, True) if allflag not in (True, False) else allflag
        respect_valves = opts.get("respect_status_valves", True) if allflag not in (True, False) else allflag
        on = o.get("in_service", True) if k != "valve" else o.get("opened", True)
        if respect and not on:
            continue
        if k == "pipe" and respect_valves:
            if any(e == o["id"] and not opened for (j, e), opened in an_pi.items()):
                continue
        if opts.get("respect_status_junctions", True) and (not jins[a] or not jins[b]):
            continue
        w = o.get("length_km", 0.3) if k == "pipe" else 0.0
        edges[(table, idx)] = (jidx[a], jidx[b], w)
    return edges


def dijkstra(edges, nodes, src):
    adj = {n: [] for n in nodes}
    for (t, i), (a, b, w) in edges.items():
        if a in adj and b in adj:
            adj[a].append((b, w))
            adj[b].append((a, w))
    dist = {src: 0.0}
    pq = [(0.0, src)]
    while pq:
        d, x = heapq.heappop(pq)
        if d > dist.get(x, np.inf):
            continue
        for y, w in adj[x]:
            nd = d + w
            if nd < dist.get(y, np.inf) - 1e-15:
                dist[y] = nd
                heapq.heappush(pq, (nd, y))
    return dist


def components(edges, nodes):
    parent = {n: n for n in nodes}

    def find(x):
        while parent[x] != x:
            parent[x] = parent[parent[x]]
            x = parent[x]
        return x
    for (a, b, w) in edges.values():
        if a in parent and b in parent:
            parent[find(a)] = find(b)
    comps = {}
    for n in nodes:
        comps.setdefault(find(n), set()).add(n)
    return sorted(map(frozenset, comps.values()), key=lambda s: sorted(s))


def option_sets(tier, nflags_off):
    base = [{}]
    if nflags_off > 1 and tier == "quick":
        return base
    names = ["include_%s" % k for k in SIG_KW] + ["respect_status_%s" % k for k in SIG_KW] + ["respect_status_junctions"]
    out = list(base)
    for n in names:
        out.append({n: False})
    # explicit index lists for include_pipes: each single pipe left out (resolved against the net at run time)
    for leave in range(6):
        out.append({"include_pipes": ("all_but", leave)})
    for a, b in itertools.combinations(names, 2):
        if tier == "thorough" or (a.startswith("respect") != b.startswith("respect")):
            out.append({a: False, b: False})
    # the override flag for all branch components, alone and against a per-component flag
    out.append({"respect_status_branches_all": False})
    out.append({"respect_status_branches_all": True})
    for kw in (SIG_KW if tier == "thorough" else ["valves", "pipes"]):
        out.append({"respect_status_branches_all": True, "respect_status_%s" % kw: False})
        out.append({"respect_status_branches_all": False, "respect_status_%s" % kw: True})
    return out


def run_pattern(sp0, flags, k, number, opts_pf, tier):
    sp, bits = c04.apply_flags(sp0, flags, k, number)
    if not consistent(sp):
        return "inconsistent", [], None
    an = supply.analyse(sp)
    if an["ambiguous"]:
        return "ambiguous", [], None
    vs = []
    net, idmap = spec.build(sp)
    off = sorted(b for b, v in bits.items() if not v)
    jidx = {o["id"]: idmap[o["id"]][1] for o in sp["ops"] if o["op"] == "junction"}
    jins = {o["id"]: o.get("in_service", True) for o in sp["ops"] if o["op"] == "junction"}
    nodes_in = [jidx[j] for j in jidx if jins[j]]
    tag = {"superset": sp0["name"]}
    # (1) unsupplied junctions vs solver
    kw = dict(mode=opts_pf.get("mode", "hydraulics"), use_numba=False)
    solved = False
    try:
        pp.pipeflow(net, **kw)
        solved = True
    except PipeflowNotConverged:
        pass
    except Exception as e:
        return "raised:" + type(e).__name__, [], None
    try:
        uj = set(top.unsupplied_junctions(net))
    except Exception as e:
        vs.append(viol("unsupplied_junctions_raises", "flags off %s: %s: %s" % (off, type(e).__name__, str(e)[:100]), **tag))
        uj = None
    if solved and uj is not None:
        nanset = {j for j in net.junction.index if np.isnan(net.res_junction.p_bar[j])}
        oos = {jidx[j] for j in jidx if not jins[j]}
        rep = uj | oos
        if rep != nanset:
            only_graph = sorted(rep - nanset)
            only_solver = sorted(nanset - rep)
            # classify by cause for narrow matching
            feeders = {o["op"] for o in sp["ops"] if o["op"] in ("circ_pump_mass", "circ_pump_pressure") and o.get("in_service", True)}
            sep = any(o["op"] == "heat_consumer" and o.get("in_service", True) for o in sp["ops"]) or any(
                o["op"] == "flow_control" and o.get("in_service", True) and o.get("control_active", True) for o in sp["ops"])
            an_u = supply.analyse(sp, pc_directed=False)
            undirected_unsupplied = {jidx[j] for j in jidx if j not in an_u["supplied"]}
            cause = "pressure_controller_direction" if rep == (undirected_unsupplied | oos) else "other"
            vs.append(viol("unsupplied_vs_solver", "flags off %s: unsupplied_junctions+out-of-service = %s, junctions without pressure "
                           "result = %s (only graph %s, only solver %s)" % (off, sorted(rep), sorted(nanset), only_graph, only_solver),
                           direction="graph_reports_more" if only_graph and not only_solver else (
                               "solver_nan_more" if only_solver and not only_graph else "both"),
                           cause=cause, **tag))
    # (2)-(5) graph structure under option sets
    nflags_off = len(off)
    pipe_labels = [idmap[o["id"]][1] for o in sp["ops"] if o["op"] == "pipe"]
    for gopts in option_sets(tier, nflags_off):
        if isinstance(gopts.get("include_pipes"), tuple):
            if gopts["include_pipes"][1] >= len(pipe_labels):
                continue
            gopts = dict(gopts, include_pipes=[x for i, x in enumerate(pipe_labels) if i != gopts["include_pipes"][1]])
        for multi in (True, False):
            try:
                g = top.create_nxgraph(net, multi=multi, **gopts)
            except Exception as e:
                vs.append(viol("create_nxgraph_raises", "flags off %s, options %s: %s: %s" % (off, gopts, type(e).__name__, str(e)[:100]), **tag))
                continue
            exp = edge_census(sp, idmap, gopts)
            respect_j = gopts.get("respect_status_junctions", True)
            exp_nodes = set(jidx[j] for j in jidx if jins[j] or not respect_j)
            got_nodes = set(g.nodes())
            if got_nodes != exp_nodes:
                vs.append(viol("graph_nodes", "flags off %s, options %s: graph nodes %s, junctions %s" % (
                    off, gopts, sorted(got_nodes), sorted(exp_nodes)), extra=bool(got_nodes - exp_nodes), **tag))
                continue
            if multi:
                got = {}
                for u, v, key in g.edges(keys=True):
                    got.setdefault(key, []).append((u, v))
                bad = None
                for key, (a, b, w) in exp.items():
                    if key not in got:
                        bad = ("missing", key, (a, b))
                        break
                    if len(got[key]) != 1 or set(got[key][0]) != {a, b}:
                        bad = ("wrong_ends", key, got[key])
                        break
                if bad is None:
                    extra = [k_ for k_ in got if k_ not in exp]
                    if extra:
                        bad = ("extra", extra[0], got[extra[0]])
                if bad:
                    vs.append(viol("edge_census", "flags off %s, options %s: edge %s %s: %s" % (off, gopts, bad[0], bad[1], bad[2]),
                                   kind=bad[0], table=str(bad[1][0]), **tag))
                    continue
            # connected components
            got_c = sorted(map(frozenset, __import__("networkx").connected_components(g)), key=lambda s: sorted(s))
            exp_c = components(exp, exp_nodes)
            if got_c != exp_c:
                vs.append(viol("graph_components", "flags off %s, options %s, multi=%s: components %s, expected %s" % (
                    off, gopts, multi, [sorted(c) for c in got_c], [sorted(c) for c in exp_c]), **tag))
        if not gopts:
            # default graph: components = hydraulic islands of the solver model
            isl_edges = {}
            for o in sp["ops"]:
                if o["op"] in supply.CONNECTING:
                    a, b = supply.ends(o)
                    if b is None:
                        continue
                    on = o.get("in_service", True) if o["op"] != "valve" else o.get("opened", True)
                    if o["op"] == "flow_control" and o.get("control_active", True):
                        on = False
                    if o["op"] == "pipe" and any(e == o["id"] and not opened for (j, e), opened in an["pi"].items()):
                        on = False
                    if on and jins[a] and jins[b]:
                        isl_edges[idmap[o["id"]]] = (jidx[a], jidx[b], 0.0)
            islands = components(isl_edges, set(nodes_in))
            g = top.create_nxgraph(net)
            got_c = sorted(map(frozenset, __import__("networkx").connected_components(g)), key=lambda s: sorted(s))
            if got_c != islands:
                # would the components be right if prescribed-flow elements (active flow controllers, heat consumers) connected?
                merged = dict(isl_edges)
                for o in sp["ops"]:
                    if (o["op"] == "heat_consumer" or (o["op"] == "flow_control" and o.get("control_active", True))) and o.get("in_service", True):
                        a, b = supply.ends(o)
                        if jins[a] and jins[b]:
                            merged[idmap[o["id"]]] = (jidx[a], jidx[b], 0.0)
                cause = "prescribed_flow_elements_connect" if got_c == components(merged, set(nodes_in)) else "other"
                vs.append(viol("components_vs_islands", "flags off %s: graph components %s, hydraulic islands %s" % (
                    off, [sorted(c) for c in got_c], [sorted(c) for c in islands]), cause=cause, **tag))
            # distances
            exp = edge_census(sp, idmap, {})
            for src in nodes_in[:2]:
                want = dijkstra(exp, set(nodes_in), src)
                for fn_name, call in (("calc_distance_to_junction", lambda: top.calc_distance_to_junction(net, src)),
                                      ("calc_distance_to_junctions", lambda: top.calc_distance_to_junctions(net, [src]))):
                    try:
                        got = call()
                    except Exception as e:
                        vs.append(viol("distance_raises", "%s(%s) raises %s: %s" % (fn_name, src, type(e).__name__, str(e)[:80]), fn=fn_name, **tag))
                        continue
                    gd = {int(k_): float(v) for k_, v in got.items()}
                    if set(gd) != set(want) or any(abs(gd[x] - want[x]) > 1e-12 for x in want):
                        vs.append(viol("distance", "flags off %s: %s from %s = %s, shortest paths over pipe lengths %s" % (
                            off, fn_name, src, gd, want), fn=fn_name, **tag))
    return "ok", vs, core.jhash([sp0["name"], number])


def run_case(case):
    sp0, flags, opts = c04.SUPERSETS[case["superset"]]()
    sp0["name"] = case["superset"]
    vs = []
    st = {}
    sigs = []
    for number in range(case["start"], case["stop"]):
        s, v, sig = run_pattern(sp0, flags, case["k"], number, opts, case.get("tier", "quick"))
        st[s] = st.get(s, 0) + 1
        vs.extend(v)
        if sig:
            sigs.append(sig)
    return {"status": "ok", "violations": vs, "nontrivial": bool(sigs), "sig": core.jhash(sigs),
            "info": {"pattern_" + k: v for k, v in st.items()}}
