"""C04 - exactly the supplied part of the network is calculated, unaffected by the rest.
All 2^k flag patterns on fixed superset networks; oracle 1 = independent reachability on the NetSpec,
oracle 2 = differential run against the pruned network."""
import copy
import itertools
import numpy as np
from mc import core, spec
from mc.core import viol
from mc.oracles import supply
import pandapipes as pp
from pandapipes.pf.pipeflow_setup import PipeflowNotConverged

ID = "C04"
CASE_WEIGHT = 32   # relative cost of one case (pool sizing)
LEVEL = "exploration"
RULE = ("flag lattices: every one of the 2^k assignments of k boolean cells (junction/pipe/pump/heat exchanger/heat "
        "consumer/ext_grid/circ pump/sink in_service, valve opened (ju and pi), flow control & pressure control "
        "in_service/control_active) on fixed superset networks (two-feeder mesh with tail, ring with junction-pipe "
        "valves, gas tree with compressor, heat ladder with circulation pumps); patterns are not filtered except the "
        "ambiguous class 'feeder in service on an out-of-service junction that another feeder reaches' (counted). Non-trivial = returned with >=1 "
        "unsupplied and >=1 supplied junction or >=1 out-of-service element; distinct = distinct NaN pattern of all "
        "result tables.")
ASSUMPTIONS = ["reachability model: in-service/open branches connect, control-active flow controllers and heat consumers "
               "do not (statement: 'hydraulically connecting'), a pipe is cut by a closed junction-pipe valve",
               "junction.in_service is not part of the statement's reachability: an out-of-service junction reached through "
               "in-service branches is re-activated by the documented connectivity check; a feeder on an out-of-service "
               "junction that is not reached that way supplies nothing (superset G)",
               "tight solver options for the differential oracle (1e-9)"]
BR_TABLES = ["pipe", "valve", "pump", "compressor", "flow_control", "press_control", "heat_exchanger", "heat_consumer",
             "circ_pump_mass", "circ_pump_pressure"]


def J(i, **kw):
    d = {"op": "junction", "id": "j%d" % i, "pn_bar": 5.0, "tfluid_k": 300.0}
    d.update(kw)
    return d


def warmup():
    spec.warmup_numba()


def superset_A():
    ops = [J(i) for i in range(7)]
    ops += [
        {"op": "ext_grid", "id": "eg0", "junction": "j0", "p_bar": 5.0, "t_k": 300.0},
        {"op": "ext_grid", "id": "eg1", "junction": "j5", "p_bar": 4.8, "t_k": 300.0},
        {"op": "pipe", "id": "p0", "from": "j0", "to": "j1"},
        {"op": "pipe", "id": "p1", "from": "j1", "to": "j2", "sections": 2},
        {"op": "pipe", "id": "p2", "from": "j2", "to": "j3"},
        {"op": "valve", "id": "v0", "from": "j1", "to": "j3"},
        {"op": "valve", "id": "v1", "et": "pi", "from": "j2", "pipe": "p2"},
        {"op": "flow_control", "id": "fc0", "from": "j3", "to": "j4", "mdot": 0.05},
        {"op": "pipe", "id": "p3", "from": "j4", "to": "j5"},
        {"op": "press_control", "id": "pc0", "from": "j2", "to": "j6", "controlled": "j6", "p_bar": 4.0,
         "check_controllability": False},
        {"op": "pipe", "id": "p4", "from": "j6", "to": "j3", "length_km": 0.5, "d_mm": 40.0},
        {"op": "pipe", "id": "p5", "from": "j0", "to": "j1", "length_km": 0.9, "d_mm": 45.0},   # longer parallel to p0, created later
        {"op": "sink", "id": "s2", "junction": "j2", "mdot": 0.2},
        {"op": "sink", "id": "s3", "junction": "j3", "mdot": 0.1},
        {"op": "sink", "id": "s4", "junction": "j4", "mdot": 0.1},
        {"op": "sink", "id": "s6", "junction": "j6", "mdot": 0.07},
        {"op": "source", "id": "q3", "junction": "j3", "mdot": 0.02},
    ]
    flags = [("p0", "in_service"), ("p1", "in_service"), ("p2", "in_service"), ("v0", "opened"), ("v1", "opened"),
             ("fc0", "in_service"), ("fc0", "control_active"), ("eg0", "in_service"), ("eg1", "in_service"),
             ("j3", "in_service"), ("pc0", "in_service"), ("pc0", "control_active"), ("s3", "in_service"),
             ("p3", "in_service")]
    return {"fluid": "water", "ops": ops}, flags, {"mode": "hydraulics"}


def superset_B():
    """ring with tail; junction-pipe valves at both ends of pipes, pump, heat exchanger; labels unsorted"""
    lab = [4, 0, 1, 2, 7, 9]  # (label 0, pipe 7) and (label 1, pipe 0) carry valves: colliding scalar keys
    ops = [J(i, index=lab[i]) for i in range(6)]
    ops += [
        {"op": "ext_grid", "id": "eg0", "junction": "j2", "p_bar": 5.0, "t_k": 300.0},
        {"op": "pipe", "id": "p0", "from": "j2", "to": "j0", "index": 5},
        {"op": "pipe", "id": "p1", "from": "j0", "to": "j1", "index": 2, "sections": 3},
        {"op": "pipe", "id": "p2", "from": "j1", "to": "j3", "index": 7},
        {"op": "pipe", "id": "p3", "from": "j3", "to": "j2", "index": 0, "sections": 2},
        {"op": "valve", "id": "v0", "et": "pi", "from": "j0", "pipe": "p1"},
        {"op": "valve", "id": "v1", "et": "pi", "from": "j3", "pipe": "p2"},
        {"op": "valve", "id": "v2", "et": "pi", "from": "j1", "pipe": "p2"},
        {"op": "valve", "id": "v4", "et": "pi", "from": "j2", "pipe": "p3"},
        {"op": "heat_exchanger", "id": "hx0", "from": "j3", "to": "j4", "qext_w": 0.0},
        {"op": "pump", "id": "pu0", "from": "j4", "to": "j5", "std_type": "P1"},
        {"op": "valve", "id": "v3", "from": "j0", "to": "j3"},
        {"op": "sink", "id": "s1", "junction": "j1", "mdot": 0.3},
        {"op": "sink", "id": "s5", "junction": "j5", "mdot": 0.2},
        {"op": "sink", "id": "s3", "junction": "j3", "mdot": 0.1},
    ]
    flags = [("p0", "in_service"), ("p1", "in_service"), ("p3", "in_service"), ("v0", "opened"), ("v1", "opened"),
             ("v2", "opened"), ("v4", "opened"), ("v3", "opened"), ("hx0", "in_service"), ("pu0", "in_service"), ("j4", "in_service"),
             ("p2", "in_service"), ("s5", "in_service")]
    return {"fluid": "water", "ops": ops}, flags, {"mode": "hydraulics"}


def superset_C():
    """gas tree with compressor and two feeders of which one is remote"""
    ops = [J(i) for i in range(6)]
    ops += [
        {"op": "ext_grid", "id": "eg0", "junction": "j0", "p_bar": 5.0, "t_k": 300.0},
        {"op": "ext_grid", "id": "eg1", "junction": "j4", "p_bar": 6.0, "t_k": 300.0},
        {"op": "pipe", "id": "p0", "from": "j0", "to": "j1"},
        {"op": "compressor", "id": "c0", "from": "j1", "to": "j2", "ratio": 1.2},
        {"op": "pipe", "id": "p1", "from": "j2", "to": "j3", "sections": 2},
        {"op": "valve", "id": "v0", "from": "j3", "to": "j4"},
        {"op": "pipe", "id": "p2", "from": "j1", "to": "j5"},
        {"op": "flow_control", "id": "fc0", "from": "j5", "to": "j3", "mdot": 0.002},
        {"op": "sink", "id": "s2", "junction": "j2", "mdot": 0.004},
        {"op": "sink", "id": "s3", "junction": "j3", "mdot": 0.006},
        {"op": "sink", "id": "s5", "junction": "j5", "mdot": 0.003},
        {"op": "mass_storage", "id": "m1", "junction": "j1", "mdot": 0.001},
    ]
    flags = [("p0", "in_service"), ("c0", "in_service"), ("p1", "in_service"), ("v0", "opened"), ("p2", "in_service"),
             ("fc0", "in_service"), ("fc0", "control_active"), ("eg0", "in_service"), ("eg1", "in_service"),
             ("j5", "in_service"), ("m1", "in_service")]
    return {"fluid": "lgas", "ops": ops}, flags, {"mode": "hydraulics"}


def superset_D():
    """heat ladder: two circulation pumps in one table, two consumers, exchanger rung, thermal stage"""
    ops = []
    for i in range(3):
        ops.append({"op": "junction", "id": "s%d" % i, "pn_bar": 5.0, "tfluid_k": 350.0})
        ops.append({"op": "junction", "id": "r%d" % i, "pn_bar": 5.0, "tfluid_k": 350.0})
    ops += [
        {"op": "circ_pump_pressure", "id": "cp0", "return": "r0", "flow": "s0", "p_flow_bar": 5.0, "plift_bar": 1.0,
         "t_flow_k": 350.0},
        {"op": "circ_pump_pressure", "id": "cp1", "return": "r2", "flow": "s2", "p_flow_bar": 5.0, "plift_bar": 1.0,
         "t_flow_k": 340.0},
        {"op": "pipe", "id": "ps0", "from": "s0", "to": "s1", "length_km": 0.2, "d_mm": 60.0, "u": 10.0},
        {"op": "pipe", "id": "ps1", "from": "s1", "to": "s2", "length_km": 0.2, "d_mm": 60.0, "u": 10.0, "sections": 2},
        {"op": "pipe", "id": "pr0", "from": "r1", "to": "r0", "length_km": 0.2, "d_mm": 60.0, "u": 10.0},
        {"op": "pipe", "id": "pr1", "from": "r2", "to": "r1", "length_km": 0.2, "d_mm": 60.0, "u": 10.0},
        {"op": "heat_consumer", "id": "hc0", "from": "s1", "to": "r1", "qext_w": 20000.0, "controlled_mdot_kg_per_s": 0.4},
        {"op": "heat_consumer", "id": "hc1", "from": "s2", "to": "r2", "qext_w": 10000.0, "controlled_mdot_kg_per_s": 0.3},
        {"op": "heat_exchanger", "id": "hx0", "from": "s1", "to": "r1", "qext_w": 5000.0, "zeta": 200.0},
    ]
    flags = [("cp0", "in_service"), ("cp1", "in_service"), ("ps0", "in_service"), ("ps1", "in_service"),
             ("pr0", "in_service"), ("pr1", "in_service"), ("hc0", "in_service"), ("hc1", "in_service"),
             ("hx0", "in_service")]
    return {"fluid": "water", "ops": ops}, flags, {"mode": "sequential"}


def superset_E(mode="sequential"):
    """thermal supply: a part fed by a p-type ext grid is calculated hydraulically but has no temperature source"""
    ops = [{"op": "junction", "id": "j%d" % i, "pn_bar": 5.0, "tfluid_k": 320.0} for i in range(7)]
    ops += [
        {"op": "ext_grid", "id": "egT", "junction": "j0", "p_bar": 5.0, "t_k": 350.0, "type": "pt"},
        {"op": "ext_grid", "id": "egP", "junction": "j3", "p_bar": 5.0, "t_k": 300.0, "type": "p"},
        {"op": "ext_grid", "id": "egT2", "junction": "j6", "p_bar": 5.0, "t_k": 330.0, "type": "pt"},
        {"op": "pipe", "id": "p0", "from": "j0", "to": "j1", "length_km": 0.2, "d_mm": 50.0, "sections": 2, "u": 10.0},
        {"op": "pipe", "id": "p1", "from": "j1", "to": "j2", "length_km": 0.2, "d_mm": 50.0, "sections": 1, "u": 10.0},
        {"op": "pipe", "id": "p2", "from": "j3", "to": "j4", "length_km": 0.2, "d_mm": 50.0, "sections": 3, "u": 10.0},
        {"op": "pipe", "id": "p3", "from": "j4", "to": "j5", "length_km": 0.2, "d_mm": 50.0, "sections": 1, "u": 10.0},
        {"op": "valve", "id": "v0", "from": "j2", "to": "j4"},
        {"op": "pipe", "id": "p4", "from": "j6", "to": "j5", "length_km": 0.3, "d_mm": 50.0, "sections": 2, "u": 10.0},
        {"op": "sink", "id": "s2", "junction": "j2", "mdot": 0.2},
        {"op": "sink", "id": "s5", "junction": "j5", "mdot": 0.15},
        {"op": "sink", "id": "s4", "junction": "j4", "mdot": 0.05},
    ]
    flags = [("v0", "opened"), ("egT", "in_service"), ("egP", "in_service"), ("egT2", "in_service"), ("p0", "in_service"),
             ("p2", "in_service"), ("p4", "in_service"), ("p1", "in_service"), ("p3", "in_service")]
    return {"fluid": "water", "ops": ops}, flags, {"mode": mode}


def superset_G():
    """feeders on junctions that can themselves be out of service (such a feeder supplies nothing)"""
    ops = [J(i) for i in range(5)]
    ops += [
        {"op": "ext_grid", "id": "eg0", "junction": "j0", "p_bar": 5.0, "t_k": 300.0},
        {"op": "ext_grid", "id": "eg1", "junction": "j3", "p_bar": 4.9, "t_k": 300.0},
        {"op": "pipe", "id": "p0", "from": "j0", "to": "j1"},
        {"op": "valve", "id": "v0", "from": "j0", "to": "j1"},
        {"op": "pipe", "id": "p1", "from": "j1", "to": "j2", "sections": 2},
        {"op": "pipe", "id": "p2", "from": "j2", "to": "j3"},
        {"op": "pipe", "id": "p3", "from": "j3", "to": "j4"},
        {"op": "sink", "id": "s1", "junction": "j1", "mdot": 0.2},
        {"op": "sink", "id": "s2", "junction": "j2", "mdot": 0.1},
        {"op": "sink", "id": "s4", "junction": "j4", "mdot": 0.1},
    ]
    flags = [("j0", "in_service"), ("j3", "in_service"), ("p0", "in_service"), ("v0", "opened"), ("p1", "in_service"),
             ("p2", "in_service"), ("eg0", "in_service"), ("eg1", "in_service"), ("p3", "in_service"), ("j1", "in_service")]
    return {"fluid": "water", "ops": ops}, flags, {"mode": "hydraulics"}


def superset_H():
    """pressure controllers met from both sides: one that does not control is an open connection in both directions"""
    ops = [J(i) for i in range(6)]
    ops += [
        {"op": "ext_grid", "id": "eg0", "junction": "j2", "p_bar": 5.0, "t_k": 300.0},
        {"op": "pipe", "id": "p0", "from": "j1", "to": "j2"},
        {"op": "press_control", "id": "pcr", "from": "j0", "to": "j1", "controlled": "j1", "p_bar": 4.5, "check_controllability": False},
        {"op": "pipe", "id": "p1", "from": "j0", "to": "j3"},
        {"op": "press_control", "id": "pcf", "from": "j2", "to": "j4", "controlled": "j4", "p_bar": 4.0, "check_controllability": False},
        {"op": "pipe", "id": "p2", "from": "j4", "to": "j5"},
        {"op": "sink", "id": "s0", "junction": "j0", "mdot": 0.1},
        {"op": "sink", "id": "s3", "junction": "j3", "mdot": 0.1},
        {"op": "sink", "id": "s5", "junction": "j5", "mdot": 0.2},
    ]
    flags = [("pcr", "control_active"), ("pcf", "control_active"), ("pcr", "in_service"), ("pcf", "in_service"),
             ("p0", "in_service"), ("p1", "in_service"), ("p2", "in_service")]
    return {"fluid": "water", "ops": ops}, flags, {"mode": "hydraulics"}


SUPERSETS = {"H": superset_H, "G": superset_G, "A": superset_A, "B": superset_B, "C": superset_C, "D": superset_D, "E": superset_E,
             "F": lambda: superset_E("bidirectional")}
QUICK_K = {"H": 7, "G": 8, "A": 10, "B": 9, "C": 9, "D": 9, "E": 7, "F": 7}
THOROUGH_K = {"H": 7, "G": 10, "A": 14, "B": 13, "C": 11, "D": 9, "E": 9, "F": 9}
CHUNK = 16


def cases(tier):
    out = []
    for name in SUPERSETS:
        k = (QUICK_K if tier == "quick" else THOROUGH_K)[name]
        n = 2 ** k
        for start in range(0, n, CHUNK):
            out.append({"superset": name, "k": k, "start": start, "stop": min(n, start + CHUNK)})
    return out


def apply_flags(sp, flags, k, number):
    sp = copy.deepcopy(sp)
    byid = {o["id"]: o for o in sp["ops"]}
    bits = {}
    for i in range(k):
        val = not bool((number >> i) & 1)  # pattern 0 = everything on
        eid, col = flags[i]
        byid[eid][col] = val
        bits["%s.%s" % (eid, col)] = val
    return sp, bits


def row_state(net, table, idx):
    row = net["res_" + table].loc[idx]
    n = int(row.isna().sum())
    if n == 0:
        return "full"
    if n == len(row):
        return "nan"
    return "partial:" + ",".join(c for c in row.index if np.isnan(row[c]))


def run_pattern(sp0, flags, k, number, opts):
    sp, bits = apply_flags(sp0, flags, k, number)
    an = supply.analyse(sp)
    vs = []
    if an["ambiguous"]:
        return "ambiguous", vs, None, False
    try:
        net, idmap = spec.build(sp)
    except Exception as e:
        return "build_error:" + type(e).__name__, vs, None, False
    kw = dict(spec.TIGHT)
    kw.update(opts)
    kw["use_numba"] = False
    off = sorted(b for b, v in bits.items() if not v)
    try:
        pp.pipeflow(net, **kw)
        raised = None
    except PipeflowNotConverged as e:
        raised = e
    except Exception as e:
        vs.append(viol("wrong_exception", "flags off %s: %s: %s" % (off, type(e).__name__, str(e)[:200]),
                       exc=type(e).__name__, superset=sp0.get("name", "")))
        return "raised:" + type(e).__name__, vs, None, False
    if not an["supplied"]:
        if raised is None:
            vs.append(viol("no_supply_returned", "flags off %s: nothing is supplied but pipeflow returned" % off))
        return "raised_expected", vs, "nosupply", False
    if raised is not None:
        # a supplied part exists: non-convergence is not a violation of C04 (counted)
        return "raised:PipeflowNotConverged", vs, None, False
    pat = []
    mode = opts.get("mode", "hydraulics")
    for eid, (table, idx) in idmap.items():
        exp = an["expect"][eid]
        if table == "junction":
            got = not np.isnan(net.res_junction.at[idx, "p_bar"])
            if got != exp:
                vs.append(viol("junction_supply", "flags off %s: junction %s p_bar %s, reachability says %s" % (
                    off, eid, "number" if got else "NaN", "supplied" if exp else "unsupplied"), expected=exp))
            pat.append(got)
        elif table in ("sink", "source", "mass_storage", "ext_grid"):
            got = not np.isnan(net["res_" + table].at[idx, "mdot_kg_per_s"])
            if got != exp:
                vs.append(viol("node_element_results", "flags off %s: %s %s result %s, expected %s" % (
                    off, table, eid, "number" if got else "NaN", "number" if exp else "NaN"), table=table, expected=exp))
            pat.append(got)
        else:
            st = row_state(net, table, idx)
            want = "full" if exp else "nan"
            if exp and mode in ("sequential", "bidirectional") and not an["texpect"].get(eid, True):
                # calculated hydraulically, but no temperature source reaches it: temperature columns stay NaN
                want = "partial:t_from_k,t_to_k,t_outlet_k"
            if st != want:
                tag = st if not st.startswith("partial") else "partial"
                vs.append(viol("branch_results", "flags off %s: %s %s result row is %s, expected %s" % (
                    off, table, eid, st, want), table=table, expected=want, got=tag,
                    cols=st.split(":", 1)[1] if ":" in st else ""))
            pat.append(st)
    # thermal supersets: the compiled kernels must return on the same pattern, with the same results
    if mode in ("sequential", "bidirectional"):
        try:
            net3, idmap3 = spec.build(sp)
            pp.pipeflow(net3, **dict(kw, use_numba=True))
            # (values of the two engines are compared by C07; here: same pattern of missing results)
            r1n, r3n = spec.results_by_id(net, idmap), spec.results_by_id(net3, idmap3)
            for eid in r1n:
                a_, b_ = r1n[eid], r3n.get(eid)
                na = None if a_ is None else sorted(c for c, v in a_.items() if isinstance(v, float) and np.isnan(v))
                nb = None if b_ is None else sorted(c for c, v in b_.items() if isinstance(v, float) and np.isnan(v))
                if na != nb:
                    vs.append(viol("numba_differs", "flags off %s: %s has missing results %s with use_numba=False, %s with use_numba=True" % (
                        off, eid, na, nb), table=idmap[eid][0]))
                    break
        except Exception as e:
            vs.append(viol("numba_run_failed", "flags off %s: use_numba=False returns, use_numba=True raises %s: %s" % (
                off, type(e).__name__, str(e)[:150]), exc=type(e).__name__))
    # oracle 2: differential against the pruned network
    psp = supply.prune(sp, an)
    try:
        net2, idmap2 = spec.build(psp)
        pp.pipeflow(net2, **kw)
        r1 = spec.results_by_id(net, idmap)
        r2 = spec.results_by_id(net2, idmap2)
        diffs = spec.compare_results(r2, r1, rtol=1e-9, atol=1e-9)
        if diffs:
            d = diffs[0]
            vs.append(viol("differs_from_pruned", "flags off %s: %s.%s = %r in the pruned network, %r in the flagged one "
                           "(%d cells differ)" % (off, d[0], d[1], d[2], d[3], len(diffs)),
                           table=idmap[d[0]][0], col=d[1]))
    except Exception as e:
        vs.append(viol("pruned_run_failed", "flags off %s: pruned network raised %s: %s" % (off, type(e).__name__, str(e)[:150]),
                       exc=type(e).__name__))
    nontrivial = (not all(an["expect"].values())) and any(an["expect"].values())
    return "ok", vs, core.jhash(pat), nontrivial


def run_case(case):
    sp0, flags, opts = SUPERSETS[case["superset"]]()
    sp0["name"] = case["superset"]
    vs = []
    status = {}
    sigs = []
    nontrivial = False
    for number in range(case["start"], case["stop"]):
        st, v, sig, nt = run_pattern(sp0, flags, case["k"], number, opts)
        status[st] = status.get(st, 0) + 1
        vs.extend(v)
        if sig:
            sigs.append(sig)
        nontrivial = nontrivial or nt
    info = {"pattern_" + k: v for k, v in status.items()}
    info["distinct_nan_patterns_in_chunk"] = len(set(sigs))
    return {"status": "ok", "violations": vs, "nontrivial": nontrivial, "sig": core.jhash(sorted(set(sigs))), "info": info}
