"""C02 - every flowing pipe / valve / heat exchanger obeys the documented pressure-loss law.
Exhaustive deviation-bounded parameter lattice x all library fluids x friction models x numba,
oracle = independent evaluation of the momentum law per section."""
import numpy as np
from mc import core, spec, scopes, enum
from mc.core import viol
from mc.oracles import momentum as mo
import pandapipes as pp
from pandapipes.component_models import Pipe

ID = "C02"
LEVEL = "exploration"
RULE = ("parameter lattice: single branch element fed by an ext_grid (and a 3-pipe mesh), every point within d "
        "deviations of the base over length, diameter, roughness, end heights, loss coefficient, uniform/non-uniform "
        "temperature, feed pressure, flow direction, flow magnitude (laminar/turbulent), sections, element kind "
        "(pipe/valve/heat exchanger), x 8 library fluids x 3 friction models x numba on/off; plus scope H d<=1. "
        "Non-trivial = returned and |mdot|>1e-9 through the element; distinct = distinct (rounded dp, lambda) signature.")
ASSUMPTIONS = ["fluid properties come from the public Fluid API (their agreement with the data files is C19)",
               "where temperatures of the two ends differ the documentation does not fix the discretisation; any of "
               "{from, to, mean} for density/viscosity/T_m is accepted (envelope), uniform-temperature cases are strict",
               "tight solver options; tolerance 1e-9 bar on the section residual"]
MIN_OK_FRACTION = 0.5
TOL = 1e-9
FLUIDS = ["water", "lgas", "hgas", "hydrogen", "methane", "air", "biomethane_pure", "biomethane_treated"]
LIQ = {"water"}

DIMS = [
    ("length_km", [0.4, 0.05]),
    ("d_mm", [60.0, 100.0]),
    ("k_mm", [0.1, 0.01, 0.5]),
    ("heights", [[0.0, 0.0], [0.0, 20.0], [30.0, 0.0]]),
    ("zeta", [0.0, 2.5]),
    ("temp", [[300.0, 300.0], [330.0, 330.0], [290.0, 320.0]]),
    ("p_bar", [5.0, 16.0]),
    ("direction", ["sink", "source"]),
    ("flow", [1.0, 0.002]),
    ("sections", [1, 2, 3]),
    ("element", ["pipe", "valve", "heat_exchanger"]),
    ("topo", ["single", "mesh"]),
]


def warmup():
    spec.warmup_numba()


def cases(tier):
    d = 2 if tier == "quick" else 3
    out = []
    fl = FLUIDS if tier == "thorough" else FLUIDS
    for fluid in fl:
        for fm in scopes.FRICTION:
            for numba in (False, True):
                if tier == "quick" and numba and fluid not in ("water", "lgas", "hydrogen"):
                    continue
                dd = d if (fluid in ("water", "lgas") or tier == "thorough") else 1
                for pt, dev in enum.deviations(DIMS, dd):
                    out.append({"scope": "P", "fluid": fluid, "friction": fm, "numba": numba, "point": pt})
    hs = scopes.h_cases(3, 3, 1, with_labels=False) if tier == "quick" else scopes.h_cases(4, 4, 1, with_labels=True)
    return out + hs


def lattice_spec(c):
    pt = c["point"]
    fluid = c["fluid"]
    gas = fluid not in LIQ
    m = (0.8 if not gas else 0.016) * pt["flow"]
    t0, t1 = pt["temp"]
    h0, h1 = pt["heights"]
    ops = [{"op": "junction", "id": "j0", "pn_bar": pt["p_bar"], "tfluid_k": t0, "height_m": h0},
           {"op": "junction", "id": "j1", "pn_bar": pt["p_bar"], "tfluid_k": t1, "height_m": h1},
           {"op": "ext_grid", "id": "eg", "junction": "j0", "p_bar": pt["p_bar"], "t_k": t0}]
    el = pt["element"]
    if el == "pipe":
        ops.append({"op": "pipe", "id": "b0", "from": "j0", "to": "j1", "length_km": pt["length_km"], "d_mm": pt["d_mm"],
                    "k_mm": pt["k_mm"], "zeta": pt["zeta"], "sections": pt["sections"]})
    elif el == "valve":
        ops.append({"op": "valve", "id": "b0", "from": "j0", "to": "j1", "d_mm": pt["d_mm"], "zeta": pt["zeta"] + 1.0})
    else:
        ops.append({"op": "heat_exchanger", "id": "b0", "from": "j0", "to": "j1", "d_mm": pt["d_mm"],
                    "zeta": pt["zeta"] + 1.0, "qext_w": 0.0})
    if pt["topo"] == "mesh":
        ops.append({"op": "junction", "id": "j2", "pn_bar": pt["p_bar"], "tfluid_k": t1, "height_m": h1 / 2})
        ops.append({"op": "pipe", "id": "b1", "from": "j0", "to": "j2", "length_km": 0.2, "d_mm": 50.0, "k_mm": 0.05,
                    "sections": 2})
        ops.append({"op": "pipe", "id": "b2", "from": "j1", "to": "j2", "length_km": 0.15, "d_mm": 40.0, "k_mm": 0.2})
        ops.append({"op": "sink", "id": "ld2", "junction": "j2", "mdot": m * 0.5})
    if pt["direction"] == "sink":
        ops.append({"op": "sink", "id": "ld", "junction": "j1", "mdot": m})
    else:
        ops.append({"op": "source", "id": "ld", "junction": "j1", "mdot": m * 0.7})
    return {"fluid": fluid, "ops": ops}, {"friction_model": c["friction"], "use_numba": c["numba"]}


def run_case(case):
    if case["scope"] == "P":
        sp, opts = lattice_spec(case)
    else:
        sp, opts = scopes.h_spec(case)
    try:
        net, idmap = spec.build(sp)
    except Exception as e:
        return {"status": "build_error:" + type(e).__name__, "violations": []}
    kw = dict(spec.TIGHT)
    kw.update(opts)
    try:
        pp.pipeflow(net, **kw)
    except Exception as e:
        vs = []
        if type(e).__name__ != "PipeflowNotConverged":
            # a valid network with an admissible friction model: the only legitimate refusal is "not converged"
            vs.append(viol("calculation_raises", "%s: %s with friction_model=%s on %s" % (
                type(e).__name__, str(e)[:120], kw.get("friction_model"), case.get("point", {}).get("element", case.get("scope"))),
                exc=type(e).__name__, friction=kw.get("friction_model")))
        return {"status": "raised:" + type(e).__name__, "violations": vs}
    return check_net(net, kw["friction_model"])


def _internal(net, pos, ns):
    """Pressures / temperatures of the internal section nodes of the pipe at table position pos.
    Read from the solver's node table (Pipe.get_internal_results raises IndexError for some gas
    nets, so the harness reads the same cells itself): internal nodes are laid out per pipe in
    table order, sections-1 nodes each."""
    if ns <= 1:
        return np.array([]), np.array([])
    from pandapipes.idx_node import PINIT, TINIT
    f, t = net["_lookups"]["node_from_to"]["pipe_nodes"]
    nint = net.pipe.sections.values.astype(int) - 1
    off = f + int(np.sum(nint[:pos]))
    rows = np.arange(off, off + ns - 1)
    assert rows[-1] < t
    npit = net["_pit"]["node"]
    return npit[rows, PINIT].copy(), npit[rows, TINIT].copy()


def check_net(net, model):
    fluid = net.fluid
    gas = fluid.is_gas
    vs = []
    sig = []
    nontrivial = False
    info = {}
    hj = net.junction.height_m
    tj = net.junction.tfluid_k
    contiguous = list(net.pipe.index) == list(range(len(net.pipe))) if len(net.pipe) else True
    rn = float(fluid.get_density(mo.TN))

    def relbad(a, b, tol=1e-9):
        return not (abs(a - b) <= tol * max(1.0, abs(a), abs(b)))

    for table in ("pipe", "valve", "heat_exchanger"):
        if table not in net or not len(net[table]):
            continue
        tab = net[table]
        res = net["res_" + table]
        for pos, idx in enumerate(tab.index):
            r = res.loc[idx]
            m = r.mdot_from_kg_per_s
            if np.isnan(m):
                continue
            if table == "valve":
                if tab.at[idx, "et"] != "ju":
                    continue
                fj, tjn = tab.at[idx, "junction"], tab.at[idx, "element"]
                if not tab.at[idx, "opened"]:
                    continue
            else:
                fj, tjn = tab.at[idx, "from_junction"], tab.at[idx, "to_junction"]
            d = tab.at[idx, "inner_diameter_mm"] / 1000.0
            zeta = float(tab.at[idx, "loss_coefficient"])
            if table == "pipe":
                ns = int(tab.at[idx, "sections"])
                L = tab.at[idx, "length_km"] * 1000.0 / ns
                k = tab.at[idx, "k_mm"] / 1000.0
                pin, tin = _internal(net, pos, ns)
            else:
                ns, L, k = 1, 0.0, 1e-4
                pin, tin = np.array([]), np.array([])
            P = np.concatenate([[r.p_from_bar], pin, [r.p_to_bar]])
            H = np.linspace(hj[fj], hj[tjn], ns + 1)
            T = np.concatenate([[tj[fj]], tin, [tj[tjn]]])
            strict = bool(np.all(T == T[0]))
            secs = mo.section_residuals(fluid, model, m, P, H, T, L, d, k, zeta * 1.0, strict)
            # pandapipes documents the loss coefficient as a property of the whole element
            worst = max(abs(s["resid"]) for s in secs)
            scale = max(1.0, float(np.max(np.abs(P))))
            key = "strict" if strict else "envelope"
            info["law_%s_%s" % (table, key)] = info.get("law_%s_%s" % (table, key), 0) + 1
            if not worst <= TOL * scale:
                vs.append(viol("momentum_law", "%s %s: section residual %.3e bar (m=%.6g, P=%s, H=%s, T=%s)" % (
                    table, idx, worst, m, np.round(P, 6).tolist(), H.tolist(), T.tolist()), table=table,
                    gas=gas, model=model, sections=">1" if ns > 1 else "1", zeta=bool(zeta), strict=strict))
            if abs(m) > 1e-9:
                nontrivial = True
                sig.append((table, round(float(P[0] - P[-1]), 7), round(secs[0]["lam"], 8)))
            # reported derived quantities
            A = np.pi * d * d / 4
            if strict and table == "pipe" and abs(m) > 1e-6:
                # reported lambda / Re stem from the linearisation point of the last iteration: they may lag the
                # reported mass flow by the last Newton step (<= tol_m), hence the 1e-10/|m| term
                rtol = 1e-8 + 1e-10 / abs(m)
                re_m = np.mean([s_["re"] for s_ in secs])
                lam_sets = [mo.lam_candidates(model, s_["re"], d, k, gas) for s_ in secs]
                lam_opts = [np.mean([ls[i] for ls in lam_sets]) for i in range(len(lam_sets[0]))]
                if all(relbad(r["lambda"], lo, 10 * rtol) for lo in lam_opts):
                    vs.append(viol("reported_lambda", "pipe %s lambda %.10g vs %s" % (idx, r["lambda"], lam_opts),
                                   gas=gas, model=model))
                if relbad(r["reynolds"], re_m, rtol):
                    vs.append(viol("reported_reynolds", "pipe %s Re %.10g vs %.10g" % (idx, r["reynolds"], re_m), gas=gas))
            if not gas and strict:
                rho = secs[0]["rho"]
                v = m / (rho * A)
                if relbad(r["v_mean_m_per_s"], v) if "v_mean_m_per_s" in r else False:
                    vs.append(viol("reported_velocity", "%s %s v_mean %.10g vs %.10g" % (table, idx, r["v_mean_m_per_s"], v),
                                   table=table, gas=gas))
                if "vdot_m3_per_s" in r and relbad(r["vdot_m3_per_s"], m / rho, 1e-9):
                    vs.append(viol("reported_vdot", "%s %s vdot %.10g vs %.10g" % (table, idx, r["vdot_m3_per_s"], m / rho),
                                   table=table, gas=gas))
            if gas and strict:
                vn = m / rn
                if "vdot_norm_m3_per_s" in r and relbad(r["vdot_norm_m3_per_s"], vn):
                    vs.append(viol("reported_vdot", "%s %s vdot_norm %.10g vs %.10g" % (table, idx, r["vdot_norm_m3_per_s"], vn),
                                   table=table, gas=gas))
                Pabs = P + mo.pamb(H)
                nf_from = mo.PN * T[0] / mo.TN * float(fluid.get_compressibility(Pabs[0])) / Pabs[0]
                nf_to = mo.PN * T[-1] / mo.TN * float(fluid.get_compressibility(Pabs[-1])) / Pabs[-1]
                if "normfactor_from" in r:
                    if relbad(r["normfactor_from"], nf_from) or relbad(r["normfactor_to"], nf_to):
                        vs.append(viol("reported_normfactor", "%s %s normfactor %.10g/%.10g vs %.10g/%.10g" % (
                            table, idx, r["normfactor_from"], r["normfactor_to"], nf_from, nf_to), table=table))
                if "v_from_m_per_s" in r:
                    if relbad(r["v_from_m_per_s"], vn / A * nf_from) or relbad(r["v_to_m_per_s"], vn / A * nf_to):
                        vs.append(viol("reported_velocity", "%s %s v_from/v_to %.10g/%.10g vs %.10g/%.10g" % (
                            table, idx, r["v_from_m_per_s"], r["v_to_m_per_s"], vn / A * nf_from, vn / A * nf_to),
                            table=table, gas=gas))
                if "v_mean_m_per_s" in r and table != "pipe" and "v_from_m_per_s" in r:
                    lo, hi = sorted([r["v_from_m_per_s"], r["v_to_m_per_s"]])
                    if not (lo - 1e-9 * abs(lo) - 1e-12 <= r["v_mean_m_per_s"] <= hi + 1e-9 * abs(hi) + 1e-12):
                        vs.append(viol("reported_velocity_mean_outside_ends", "%s %s v_mean %.10g not within [v_from, v_to]="
                                       "[%.10g, %.10g]" % (table, idx, r["v_mean_m_per_s"], lo, hi), table=table, gas=gas))
                elif "v_mean_m_per_s" in r:
                    vm = []
                    for s in range(ns):
                        pa, pb = Pabs[s], Pabs[s + 1]
                        pm = pa if np.isclose(pa, pb, rtol=1e-5, atol=1e-8) else 2 / 3 * (pa ** 3 - pb ** 3) / (pa ** 2 - pb ** 2)
                        tm = (T[s] + T[s + 1]) / 2
                        vm.append(vn / A * mo.PN * tm / mo.TN * float(fluid.get_compressibility(pm)) / pm)
                    if relbad(r["v_mean_m_per_s"], float(np.mean(vm)), 1e-8):
                        vs.append(viol("reported_velocity", "%s %s v_mean %.10g vs %.10g" % (
                            table, idx, r["v_mean_m_per_s"], float(np.mean(vm))), table=table, gas=gas))
    return {"status": "ok", "violations": vs, "nontrivial": nontrivial, "sig": core.jhash(sig), "info": info}
