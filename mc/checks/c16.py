"""C16 - element creation keeps the net referentially intact, atomic and as documented.
For every create_* function: every kind of invalid argument at every position, omitted-optional subsets, on
empty / populated nets of every sector, short histories; bulk = sequence of singles; std type = parameters."""
import copy
import inspect
import itertools
import re
import numpy as np
import pandas as pd
from mc import core, spec
from mc.core import viol
import pandapipes as pp
from pandapipes.pandapipes_net import Sector

ID = "C16"
CASE_WEIGHT = 1   # relative cost of one case (pool sizing)
LEVEL = "fault_enumeration"
RULE = ("for each of the 30 create_* functions (single and bulk): the valid call (defaults omitted), the valid call with every "
        "optional argument given, and EVERY fault from the menu {non-existing junction at each junction argument, "
        "non-existing / unconnected pipe, unknown element type, unknown std type, duplicate index, bulk index with internal "
        "duplicate / collision, wrong-length array at each array argument, one bad entry among many, malformed geodata, "
        "forbidden heat-consumer parameter combinations, ext grid without p and t, negative storage bounds} at EVERY argument "
        "position, on {junction-only, populated} nets x sector {all, gas, water, heat, None}; histories of depth 2 mixing a "
        "faulty and a valid call; bulk vs singles; std type vs parameters. Non-trivial = call executed and judged; distinct = "
        "distinct (function, fault, position, net, sector).")
ASSUMPTIONS = ["documented defaults are parsed from ':type x: ..., default V' lines of the docstrings",
               "a rejected call must leave every table (incl. geodata), component_list and std_types deep-equal to the snapshot"]

SECTORS = {"all": Sector.ALL, "gas": Sector.GAS, "water": Sector.WATER, "heat": Sector.HEAT, "none": Sector.NONE}


def make_net(kind, sector):
    fluid = "lgas" if sector == "gas" else "water"
    net = pp.create_empty_network(fluid=fluid, sector=SECTORS[sector])
    pp.create_junctions(net, 4, 5.0, 300.0, index=[0, 1, 2, 5])
    if kind == "populated":
        pp.create_pipe_from_parameters(net, 0, 1, 0.1, 50.0, index=3)
        pp.create_pipe_from_parameters(net, 1, 2, 0.1, 50.0, index=7)
        pp.create_sink(net, 2, 0.1, index=4)
        pp.create_ext_grid(net, 0, 5.0, 300.0, index=1)
        pp.create_valve(net, 1, 5, "ju", 40.0, index=2)
    return net


def snapshot(net):
    snap = {}
    for k, v in net.items():
        if isinstance(v, pd.DataFrame):
            snap[k] = v.copy(deep=True)
    snap["__component_list"] = [c.__name__ for c in net.component_list]
    snap["__std_types"] = {c: sorted(t.keys()) for c, t in net.std_types.items()} if "std_types" in net else None
    return snap


def snap_diff(a, b):
    for k in sorted(set(a) | set(b)):
        if k.startswith("__"):
            if a.get(k) != b.get(k):
                return "%s: %s -> %s" % (k[2:], a.get(k), b.get(k))
            continue
        if k not in a:
            return "table %s appeared (%d rows)" % (k, len(b[k]))
        if k not in b:
            return "table %s disappeared" % k
        d = spec.frames_equal(a[k], b[k])
        if d:
            return "table %s: %s" % (k, d)
    return None


# registry: name -> (table, valid kwargs (positional as keywords), junction args, bulk?)
def registry(populated):
    J = [0, 1]
    R = {
        "create_junction": ("junction", dict(pn_bar=5.0, tfluid_k=300.0), [], False),
        "create_sink": ("sink", dict(junction=2, mdot_kg_per_s=0.1), ["junction"], False),
        "create_source": ("source", dict(junction=2, mdot_kg_per_s=0.1), ["junction"], False),
        "create_mass_storage": ("mass_storage", dict(junction=2, mdot_kg_per_s=0.1), ["junction"], False),
        "create_ext_grid": ("ext_grid", dict(junction=1, p_bar=5.0, t_k=300.0), ["junction"], False),
        "create_heat_exchanger": ("heat_exchanger", dict(from_junction=0, to_junction=1, qext_w=1000.0, inner_diameter_mm=50.0),
                                  ["from_junction", "to_junction"], False),
        "create_pipe": ("pipe", dict(from_junction=0, to_junction=2, std_type="80_GGG", length_km=0.2), ["from_junction", "to_junction"], False),
        "create_pipe_from_parameters": ("pipe", dict(from_junction=0, to_junction=2, length_km=0.2, inner_diameter_mm=60.0),
                                        ["from_junction", "to_junction"], False),
        "create_valve": ("valve", dict(junction=0, element=2, et="ju", inner_diameter_mm=40.0), ["junction", "element"], False),
        "create_pump": ("pump", dict(from_junction=0, to_junction=1, std_type="P1"), ["from_junction", "to_junction"], False),
        "create_pump_from_parameters": ("pump", dict(from_junction=0, to_junction=1, new_std_type_name="mypump",
                                                     pressure_list=[6.1, 5.8, 4.0], flowrate_list=[0, 19, 83], reg_polynomial_degree=2),
                                        ["from_junction", "to_junction"], False),
        "create_circ_pump_const_pressure": ("circ_pump_pressure", dict(return_junction=2, flow_junction=0, p_flow_bar=5.0, plift_bar=1.0, t_flow_k=350.0),
                                            ["return_junction", "flow_junction"], False),
        "create_circ_pump_const_mass_flow": ("circ_pump_mass", dict(return_junction=2, flow_junction=0, p_flow_bar=5.0, mdot_flow_kg_per_s=0.5, t_flow_k=350.0),
                                             ["return_junction", "flow_junction"], False),
        "create_compressor": ("compressor", dict(from_junction=0, to_junction=1, pressure_ratio=1.2), ["from_junction", "to_junction"], False),
        "create_pressure_control": ("press_control", dict(from_junction=0, to_junction=1, controlled_junction=1, controlled_p_bar=4.0),
                                    ["from_junction", "to_junction", "controlled_junction"], False),
        "create_flow_control": ("flow_control", dict(from_junction=0, to_junction=1, controlled_mdot_kg_per_s=0.1), ["from_junction", "to_junction"], False),
        "create_heat_consumer": ("heat_consumer", dict(from_junction=0, to_junction=1, qext_w=1000.0, controlled_mdot_kg_per_s=0.1),
                                 ["from_junction", "to_junction"], False),
        # bulk
        "create_junctions": ("junction", dict(nr_junctions=3, pn_bar=5.0, tfluid_k=300.0), [], True),
        "create_sinks": ("sink", dict(junctions=[0, 1, 2], mdot_kg_per_s=[0.1, 0.2, 0.3]), ["junctions"], True),
        "create_sources": ("source", dict(junctions=[0, 1, 2], mdot_kg_per_s=[0.1, 0.2, 0.3]), ["junctions"], True),
        "create_ext_grids": ("ext_grid", dict(junctions=[0, 1], p_bar=[5.0, 4.0], t_k=[300.0, 310.0]), ["junctions"], True),
        "create_pipes": ("pipe", dict(from_junctions=[0, 1], to_junctions=[1, 2], std_type="80_GGG", length_km=[0.1, 0.2]),
                         ["from_junctions", "to_junctions"], True),
        "create_pipes_from_parameters": ("pipe", dict(from_junctions=[0, 1], to_junctions=[1, 2], length_km=[0.1, 0.2], inner_diameter_mm=[50.0, 60.0]),
                                         ["from_junctions", "to_junctions"], True),
        "create_valves": ("valve", dict(junctions=[0, 1], elements=[1, 2], et="ju", inner_diameter_mm=[40.0, 40.0]), ["junctions", "elements"], True),
        "create_pressure_controls": ("press_control", dict(from_junctions=[0, 1], to_junctions=[1, 2], controlled_junctions=[1, 2],
                                                           controlled_p_bar=[4.0, 3.5]), ["from_junctions", "to_junctions", "controlled_junctions"], True),
        "create_flow_controls": ("flow_control", dict(from_junctions=[0, 1], to_junctions=[1, 2], controlled_mdot_kg_per_s=[0.1, 0.2]),
                                 ["from_junctions", "to_junctions"], True),
        "create_heat_exchangers": ("heat_exchanger", dict(from_junctions=[0, 1], to_junctions=[1, 2], qext_w=[100.0, 200.0], inner_diameter_mm=[50.0, 50.0]),
                                   ["from_junctions", "to_junctions"], True),
        "create_heat_consumers": ("heat_consumer", dict(from_junctions=[0, 1], to_junctions=[1, 2], qext_w=[100.0, 200.0],
                                                        controlled_mdot_kg_per_s=[0.1, 0.2]), ["from_junctions", "to_junctions"], True),
    }
    return R


def faults(fname, table, kw, jargs, bulk, populated):
    """list of (fault name, position, mutated kwargs)"""
    out = []
    MISSING = 77
    for a in jargs:
        k2 = copy.deepcopy(kw)
        if bulk:
            for pos in range(len(k2[a])):
                k3 = copy.deepcopy(kw)
                k3[a][pos] = MISSING
                out.append(("missing_junction", "%s[%d]" % (a, pos), k3))
        else:
            k2[a] = MISSING
            out.append(("missing_junction", a, k2))
    # duplicate / colliding index
    if bulk:
        n = kw.get("nr_junctions") or len(next(v for v in kw.values() if isinstance(v, list)))
        existing = {"junction": 2, "pipe": 3, "sink": 4, "ext_grid": 1, "valve": 2}.get(table)
        k2 = dict(copy.deepcopy(kw), index=[100 + i for i in range(n - 1)] + [100])
        out.append(("index_internal_duplicate", "index", k2))
        if existing is not None and (populated or table == "junction"):
            k2 = dict(copy.deepcopy(kw), index=[200 + i for i in range(n - 1)] + [existing])
            out.append(("index_collision", "index", k2))
        k2 = dict(copy.deepcopy(kw), index=[300 + i for i in range(n + 1)])
        out.append(("index_wrong_length", "index", k2))
        for a, v in kw.items():
            if isinstance(v, list) and a not in jargs:
                k2 = copy.deepcopy(kw)
                k2[a] = v + [v[-1]]
                out.append(("array_wrong_length", a, k2))
        for a in jargs:
            k2 = copy.deepcopy(kw)
            k2[a] = k2[a] + [k2[a][-1]]
            out.append(("array_wrong_length", a, k2))
    else:
        existing = {"junction": 2, "pipe": 3, "sink": 4, "ext_grid": 1, "valve": 2}.get(table)
        if existing is not None and (populated or table == "junction"):
            out.append(("duplicate_index", "index", dict(copy.deepcopy(kw), index=existing)))
    # values that cannot be stored in the column: None for a boolean flag, text for a number
    n_el = (kw.get("nr_junctions") or len(next(v for v in kw.values() if isinstance(v, list)))) if bulk else 1
    out.append(("none_for_bool", "in_service", dict(copy.deepcopy(kw), in_service=([True] * (n_el - 1) + [None]) if bulk else None)))
    num = next((a for a, v in kw.items() if a not in jargs and a != "nr_junctions" and (
        isinstance(v, float) or (isinstance(v, list) and v and isinstance(v[0], float)))), None)
    if num is not None:
        k2 = copy.deepcopy(kw)
        k2[num] = "abc" if not isinstance(k2[num], list) else k2[num][:-1] + ["abc"]
        out.append(("text_for_number", num, k2))
    if "std_type" in kw:
        out.append(("unknown_std_type", "std_type", dict(copy.deepcopy(kw), std_type="no_such_type")))
    if fname in ("create_junction", "create_junctions"):
        g = (1.0, 2.0, 3.0) if not bulk else [(1.0, 2.0, 3.0)] * kw["nr_junctions"]
        out.append(("malformed_geodata", "geodata", dict(copy.deepcopy(kw), geodata=g)))
        if bulk:
            out.append(("geodata_wrong_length", "geodata", dict(copy.deepcopy(kw), geodata=[(1.0, 2.0)] * (kw["nr_junctions"] + 1))))
    if fname == "create_valve":
        out.append(("unknown_et", "et", dict(copy.deepcopy(kw), et="xx")))
        out.append(("missing_pipe", "element", dict(copy.deepcopy(kw), et="pi", element=99)))
        if populated:
            out.append(("pipe_not_at_junction", "element", dict(copy.deepcopy(kw), junction=5, et="pi", element=3)))
    if fname == "create_valves":
        out.append(("unknown_et", "et", dict(copy.deepcopy(kw), et="xx")))
        out.append(("missing_pipe", "elements", dict(copy.deepcopy(kw), et="pi", elements=[98, 99])))
        if populated:
            out.append(("pipe_not_at_junction", "elements[1]", dict(copy.deepcopy(kw), junctions=[0, 5], et="pi", elements=[3, 7])))
            out.append(("missing_pipe", "elements[1]", dict(copy.deepcopy(kw), junctions=[0, 1], et="pi", elements=[3, 99])))
    if fname == "create_valves" and populated:
        # each pipe is named in the call and touches the junction of the OTHER valve only
        out.append(("pipe_not_at_junction", "elements(crossed)", dict(copy.deepcopy(kw), junctions=[0, 2], et="pi", elements=[7, 3])))
    if fname in ("create_pipes", "create_pipes_from_parameters"):
        out.append(("geodata_wrong_length", "geodata", dict(copy.deepcopy(kw), geodata=[[(0, 0), (1, 1)]] * 3)))
    if fname == "create_pump_from_parameters":
        # a type name that is not in the library and no curve data to create it from
        out.append(("unknown_std_type", "new_std_type_name", dict(from_junction=0, to_junction=1, new_std_type_name="ghost_type")))
    if fname in ("create_heat_consumer", "create_heat_consumers"):
        base = {k: v for k, v in kw.items() if k not in ("qext_w", "controlled_mdot_kg_per_s")}
        one = (lambda v: [v, v]) if bulk else (lambda v: v)
        out.append(("hc_single_parameter", "qext_w", dict(base, qext_w=one(100.0))))
        out.append(("hc_three_parameters", "deltat_k", dict(copy.deepcopy(kw), deltat_k=one(10.0))))
        out.append(("hc_deltat_and_treturn", "treturn_k", dict(base, deltat_k=one(10.0), treturn_k=one(320.0))))
        out.append(("hc_no_parameter", "-", dict(base)))
    if fname == "create_ext_grid":
        out.append(("ext_grid_without_p_and_t", "p_bar", dict(junction=kw["junction"])))
        out.append(("ext_grid_type_mismatch", "type", dict(junction=kw["junction"], t_k=300.0, type="p")))
    if fname == "create_mass_storage":
        out.append(("negative_storage_bound", "min_m_stored_kg", dict(copy.deepcopy(kw), min_m_stored_kg=-1.0)))
        out.append(("negative_storage_bound", "max_m_stored_kg", dict(copy.deepcopy(kw), max_m_stored_kg=-5.0)))
    if fname == "create_pressure_control":
        # a controlled junction that is not connected to the to-junction: the call must not be a silent no-op
        out.append(("not_controllable", "controlled_junction", dict(copy.deepcopy(kw), controlled_junction=5)))
    return out


def doc_defaults(fn):
    doc = fn.__doc__ or ""
    out = {}
    for m in re.finditer(r":type (\w+):\s*([^\n]*)", doc):
        name, rest = m.group(1), m.group(2)
        dm = re.search(r"default\s+([^\s,;]+)", rest)
        if dm:
            out[name] = dm.group(1).strip().rstrip(".")
    return out


def parse_default(txt):
    t = txt.strip("\"'")
    if t in ("None",):
        return None
    if t in ("True", "False"):
        return t == "True"
    if t in ("np.inf", "inf", "numpy.inf"):
        return np.inf
    try:
        return float(t)
    except ValueError:
        return t


def cases(tier):
    out = []
    for kind in ("junction_only", "populated"):
        for sector in SECTORS:
            R = registry(kind == "populated")
            for fname, (table, kw, jargs, bulk) in R.items():
                out.append({"kind": "valid", "net": kind, "sector": sector, "fn": fname})
                for fi, (fault, pos, k2) in enumerate(faults(fname, table, kw, jargs, bulk, kind == "populated")):
                    out.append({"kind": "fault", "net": kind, "sector": sector, "fn": fname, "fault": fi, "fault_name": fault, "pos": pos})
    for fname in registry(True):
        out.append({"kind": "doc", "fn": fname})
    # histories: a valid call, then the same call again with the index it just got (must be refused, net unchanged),
    # then the valid call once more (must behave as on a fresh table)
    for kind in ("junction_only", "populated"):
        for sector in (("all", "none") if tier == "quick" else SECTORS):
            for fname in registry(kind == "populated"):
                out.append({"kind": "history", "net": kind, "sector": sector, "fn": fname})
    for name in ("sinks", "sources", "ext_grids", "pipes", "pipes_from_parameters", "valves", "pressure_controls", "flow_controls",
                 "heat_exchangers", "heat_consumers", "junctions"):
        for sector in ("all", "heat") if tier == "quick" else SECTORS:
            out.append({"kind": "bulk_vs_single", "what": name, "sector": sector})
    for what in ("ext_grids_scalar_none", "valves_et_array", "pipes_type_list_override", "pressure_controls_lists_remote"):
        out.append({"kind": "bulk_vs_single", "what": what, "sector": "all"})
    for what in ("sinks", "sources", "pipes_from_parameters", "flow_controls"):
        for nexist in (0, 1, 2, 3):
            out.append({"kind": "bulk_series", "what": what, "nexist": nexist})
    out.append({"kind": "std_vs_params", "chunk": 0})
    return out


def call(fn, net, kw):
    return fn(net, **copy.deepcopy(kw))


def sector_allows(fname, sector):
    return True


def run_case(case):
    vs = []
    k = case["kind"]
    if k in ("valid", "fault"):
        net = make_net(case["net"], case["sector"])
        R = registry(case["net"] == "populated")
        table, kw, jargs, bulk = R[case["fn"]]
        fn = getattr(pp, case["fn"])
        tag = {"fn": case["fn"]}
        if k == "fault":
            fault, pos, kw2 = faults(case["fn"], table, kw, jargs, bulk, case["net"] == "populated")[case["fault"]]
            tag.update(fault=fault)
            before = snapshot(net)
            nrows = len(net[table]) if table in net else 0
            try:
                ret = call(fn, net, kw2)
                raised = None
            except Exception as e:
                raised = e
            after = snapshot(net)
            where = "%s(%s) [%s at %s] on %s/%s net" % (case["fn"], kw2, fault, pos, case["net"], case["sector"])
            if raised is not None:
                d = snap_diff(before, after)
                if d:
                    what = d.split(":")[0]
                    vs.append(viol("rejected_call_changed_net", "%s raised %s but changed the net: %s" % (where, type(raised).__name__, d),
                                   what=("component_list" if what == "component_list" else ("table appeared" if "appeared" in what else "table rows")), **tag))
            else:
                n2 = len(net[table]) if table in net else 0
                if n2 == nrows:
                    vs.append(viol("silent_noop", "%s neither raised nor added rows (returned %r)" % (where, ret), **tag))
                else:
                    # accepting these is fine (None is coerced with bool() by the single functions; a non-controllable
                    # controller may be created): only a silent no-op or a non-atomic refusal is not
                    if fault not in ("not_controllable", "none_for_bool"):
                        vs.append(viol("invalid_call_accepted", "%s was accepted (%d rows added)" % (where, n2 - nrows), **tag))
            return {"status": "ok", "violations": vs, "nontrivial": True, "sig": core.jhash(case)}
        # valid call: defaults omitted
        before = snapshot(net)
        nrows = len(net[table]) if table in net else 0
        try:
            ret = call(fn, net, kw)
        except Exception as e:
            # sector restrictions are legitimate reasons to refuse (must leave the net unchanged)
            d = snap_diff(before, snapshot(net))
            msg = str(e)
            if d:
                vs.append(viol("rejected_call_changed_net", "%s(%s) on %s/%s net raised %s (%s) but changed the net: %s" % (
                    case["fn"], kw, case["net"], case["sector"], type(e).__name__, msg[:80], d),
                    what="component_list" if d.startswith("component_list") else "table", fault="valid_call_refused", **tag))
            if "sector" not in msg.lower() and "not valid" not in msg.lower() and "std_type" not in msg.lower():
                vs.append(viol("valid_call_refused", "%s(%s) on %s/%s net raised %s: %s" % (case["fn"], kw, case["net"], case["sector"],
                               type(e).__name__, msg[:120]), sector=case["sector"], **tag))
            return {"status": "ok", "violations": vs, "nontrivial": True, "sig": core.jhash(case)}
        n_exp = kw.get("nr_junctions") or (len(next(v for v in kw.values() if isinstance(v, list))) if bulk else 1)
        n2 = len(net[table])
        if n2 - nrows != n_exp:
            vs.append(viol("row_count", "%s(%s): %d rows added, %d requested" % (case["fn"], kw, n2 - nrows, n_exp), **tag))
        if not net[table].index.is_unique:
            vs.append(viol("index_not_unique", "%s: index %s" % (case["fn"], list(net[table].index)), **tag))
        new_idx = [ret] if not bulk else list(ret)
        # given values land in the table
        colmap = {"junction": "junction", "junctions": "junction", "from_junctions": "from_junction", "to_junctions": "to_junction",
                  "controlled_junctions": "controlled_junction", "elements": "element"}
        for a, v in kw.items():
            col = colmap.get(a, a)
            if col in net[table].columns and a not in ("std_type",):
                got = net[table].loc[new_idx, col].tolist()
                want = v if isinstance(v, list) else [v] * len(new_idx)
                if [float(x) if isinstance(x, (int, float, np.floating, np.integer)) else x for x in got] != \
                        [float(x) if isinstance(x, (int, float)) else x for x in want]:
                    vs.append(viol("given_value_not_stored", "%s: column %s = %s, given %s" % (case["fn"], col, got, want), col=col, **tag))
        # dtypes of pre-existing columns preserved
        if table in before:
            for c in before[table].columns:
                if len(before[table]) and before[table][c].dtype != net[table][c].dtype:
                    vs.append(viol("dtype_changed", "%s: column %s dtype %s -> %s" % (case["fn"], c, before[table][c].dtype, net[table][c].dtype),
                                   col=c, **tag))
        # other tables untouched
        after = snapshot(net)
        for t in before:
            if t.startswith("__") or t in (table, table + "_geodata") or t.startswith("res_"):
                continue
            if t in after and spec.frames_equal(before[t], after[t]):
                vs.append(viol("other_table_changed", "%s changed table %s" % (case["fn"], t), **tag))
        return {"status": "ok", "violations": vs, "nontrivial": True, "sig": core.jhash(case)}
    if k == "doc":
        fn = getattr(pp, case["fn"])
        fn = inspect.unwrap(fn)
        if fn.__name__ != case["fn"] and fn.__closure__:
            # pandapipes.deprecations.deprecated_input wraps without functools.wraps: the documented function is in the closure
            for cell in fn.__closure__:
                c = cell.cell_contents
                if callable(c) and getattr(c, "__name__", "") == case["fn"]:
                    fn = c
        sig = inspect.signature(fn)
        docd = doc_defaults(fn)
        n = 0
        for name, txt in docd.items():
            if name not in sig.parameters:
                continue
            p = sig.parameters[name]
            if p.default is inspect.Parameter.empty:
                n += 1
                vs.append(viol("documented_default", "%s: parameter %s is documented with default %r but is a required argument" % (
                    case["fn"], name, txt), fn=case["fn"], param=name))
                continue
            want = parse_default(txt)
            got = p.default
            n += 1
            same = (want is None and got is None) or (isinstance(want, float) and isinstance(got, (int, float)) and not isinstance(got, bool)
                                                      and float(got) == want) or (want == got and type(want) is type(got)) or \
                   (isinstance(want, str) and str(got) == want)
            if not same:
                vs.append(viol("documented_default", "%s: parameter %s documented default %r, signature default %r" % (case["fn"], name, txt, got),
                               fn=case["fn"], param=name))
        return {"status": "ok", "violations": vs, "nontrivial": n > 0, "sig": core.jhash(case)}
    if k == "bulk_vs_single":
        return bulk_vs_single(case)
    if k == "history":
        return history_case(case)
    if k == "bulk_series":
        return bulk_series(case)
    if k == "std_vs_params":
        return std_vs_params()
    raise KeyError(k)


def bulk_vs_single(case):
    what, sector = case["what"], case["sector"]
    vs = []
    nets = []
    for mode in ("bulk", "single"):
        net = make_net("populated", sector)
        try:
            if what == "junctions":
                if mode == "bulk":
                    pp.create_junctions(net, 3, [4.0, 5.0, 6.0], 310.0, height_m=[1.0, 2.0, 3.0], name=["a", "b", "c"], index=[9, 7, 12],
                                        geodata=[(0, 1), (2, 3), (4, 5)])
                else:
                    for i, (p, h, n, ix, g) in enumerate(zip([4.0, 5.0, 6.0], [1.0, 2.0, 3.0], "abc", [9, 7, 12], [(0, 1), (2, 3), (4, 5)])):
                        pp.create_junction(net, p, 310.0, height_m=h, name=n, index=ix, geodata=g)
            elif what in ("sinks", "sources"):
                f_b = getattr(pp, "create_" + what)
                f_s = getattr(pp, "create_" + what[:-1])
                if mode == "bulk":
                    f_b(net, [2, 0, 2], [0.1, 0.2, 0.3], scaling=[1.0, 0.5, 2.0], index=[10, 8, 9], in_service=[True, False, True])
                else:
                    for j, m, s, ix, ins in zip([2, 0, 2], [0.1, 0.2, 0.3], [1.0, 0.5, 2.0], [10, 8, 9], [True, False, True]):
                        f_s(net, j, m, scaling=s, index=ix, in_service=ins)
            elif what == "ext_grids":
                if mode == "bulk":
                    pp.create_ext_grids(net, [1, 2, 5], [5.0, np.nan, 4.0], [300.0, 310.0, np.nan], index=[6, 5, 9])
                else:
                    for j, p, t, ix in zip([1, 2, 5], [5.0, None, 4.0], [300.0, 310.0, None], [6, 5, 9]):
                        pp.create_ext_grid(net, j, p_bar=p, t_k=t, index=ix)
            elif what == "ext_grids_scalar_none":
                # t_k omitted as a whole (scalar None): types are inferred as 'p'
                if mode == "bulk":
                    pp.create_ext_grids(net, [1, 2], [5.0, 4.0], None, index=[6, 5])
                else:
                    for j, p_, ix in zip([1, 2], [5.0, 4.0], [6, 5]):
                        pp.create_ext_grid(net, j, p_bar=p_, t_k=None, index=ix)
            elif what == "valves_et_array":
                if mode == "bulk":
                    pp.create_valves(net, [0, 1], [2, 7], np.array(["ju", "pi"]), [40.0, 45.0], index=[8, 6])
                else:
                    for j, e, et, d, ix in zip([0, 1], [2, 7], ["ju", "pi"], [40.0, 45.0], [8, 6]):
                        pp.create_valve(net, j, e, et, d, index=ix)
            elif what == "pipes_type_list_override":
                if mode == "bulk":
                    pp.create_pipes(net, [0, 2], [2, 5], ["80_GGG", "100_GGG"], [0.3, 0.4], u_w_per_m2k=5.0, k_mm=0.5, index=[11, 9])
                else:
                    for a, b, t_, L, ix in zip([0, 2], [2, 5], ["80_GGG", "100_GGG"], [0.3, 0.4], [11, 9]):
                        pp.create_pipe(net, a, b, t_, L, u_w_per_m2k=5.0, k_mm=0.5, index=ix)
            elif what == "pressure_controls_lists_remote":
                # plain lists, the controlled junction (2) is neither end of the controller but connected to its to-side
                if mode == "bulk":
                    pp.create_pressure_controls(net, [0], [1], [2], 4.0, index=[4])
                else:
                    pp.create_pressure_control(net, 0, 1, 2, 4.0, index=4)
            elif what == "pipes":
                if mode == "bulk":
                    pp.create_pipes(net, [0, 2], [2, 5], "80_GGG", [0.3, 0.4], sections=[1, 3], index=[11, 9])
                else:
                    for a, b, L, s, ix in zip([0, 2], [2, 5], [0.3, 0.4], [1, 3], [11, 9]):
                        pp.create_pipe(net, a, b, "80_GGG", L, sections=s, index=ix)
            elif what == "pipes_from_parameters":
                if mode == "bulk":
                    pp.create_pipes_from_parameters(net, [0, 2], [2, 5], [0.3, 0.4], [50.0, 60.0], k_mm=[0.1, 0.2], sections=[1, 3],
                                                    u_w_per_m2k=[0.0, 5.0], index=[11, 9])
                else:
                    for a, b, L, d, kmm, s, u, ix in zip([0, 2], [2, 5], [0.3, 0.4], [50.0, 60.0], [0.1, 0.2], [1, 3], [0.0, 5.0], [11, 9]):
                        pp.create_pipe_from_parameters(net, a, b, L, d, k_mm=kmm, sections=s, u_w_per_m2k=u, index=ix)
            elif what == "valves":
                if mode == "bulk":
                    pp.create_valves(net, [0, 1], [2, 7], ["ju", "pi"], [40.0, 45.0], opened=[True, False], index=[8, 6])
                else:
                    for j, e, et, d, o, ix in zip([0, 1], [2, 7], ["ju", "pi"], [40.0, 45.0], [True, False], [8, 6]):
                        pp.create_valve(net, j, e, et, d, opened=o, index=ix)
            elif what == "pressure_controls":
                if mode == "bulk":
                    pp.create_pressure_controls(net, [0, 1], [1, 2], [1, 2], [4.0, 3.0], control_active=[True, False], index=[4, 2])
                else:
                    for a, b, c, p, act, ix in zip([0, 1], [1, 2], [1, 2], [4.0, 3.0], [True, False], [4, 2]):
                        pp.create_pressure_control(net, a, b, c, p, control_active=act, index=ix)
            elif what == "flow_controls":
                if mode == "bulk":
                    pp.create_flow_controls(net, [0, 1], [1, 2], [0.1, 0.2], control_active=[True, False], index=[4, 2])
                else:
                    for a, b, m, act, ix in zip([0, 1], [1, 2], [0.1, 0.2], [True, False], [4, 2]):
                        pp.create_flow_control(net, a, b, m, control_active=act, index=ix)
            elif what == "heat_exchangers":
                if mode == "bulk":
                    pp.create_heat_exchangers(net, [0, 1], [1, 2], [100.0, 200.0], [50.0, 60.0], loss_coefficient=[0.0, 2.0], index=[4, 2])
                else:
                    for a, b, q, d, z, ix in zip([0, 1], [1, 2], [100.0, 200.0], [50.0, 60.0], [0.0, 2.0], [4, 2]):
                        pp.create_heat_exchanger(net, a, b, q, d, loss_coefficient=z, index=ix)
            elif what == "heat_consumers":
                if mode == "bulk":
                    pp.create_heat_consumers(net, [0, 1], [1, 2], qext_w=[100.0, None], controlled_mdot_kg_per_s=[0.1, 0.2],
                                             deltat_k=[None, 10.0], index=[4, 2])
                else:
                    pp.create_heat_consumer(net, 0, 1, qext_w=100.0, controlled_mdot_kg_per_s=0.1, index=4)
                    pp.create_heat_consumer(net, 1, 2, controlled_mdot_kg_per_s=0.2, deltat_k=10.0, index=2)
            nets.append(("ok", snapshot(net)))
        except Exception as e:
            nets.append(("raised:" + type(e).__name__ + ":" + str(e)[:60], None))
    tag = {"what": what}
    if nets[0][0].split(":")[0] != nets[1][0].split(":")[0]:
        vs.append(viol("bulk_vs_single_verdict", "create_%s: bulk %s, singles %s (sector %s)" % (what, nets[0][0], nets[1][0], sector), **tag))
    elif nets[0][1] is not None:
        a, b = nets[0][1], nets[1][1]
        for t in sorted(set(a) | set(b)):
            if t.startswith("__"):
                continue
            if t not in a or t not in b:
                vs.append(viol("bulk_vs_single", "create_%s: table %s exists only on one side" % (what, t), table=t, **tag))
                continue
            x, y = a[t].sort_index().copy(), b[t].sort_index().copy()
            for fr in (x, y):
                if "std_type" in fr.columns:
                    fr["std_type"] = [None if (v is None or (isinstance(v, float) and np.isnan(v))) else v for v in fr["std_type"]]
                if "name" in fr.columns:
                    # an unnamed element: None, NaN and the empty string are the same information
                    fr["name"] = [None if (v is None or v == "" or (isinstance(v, float) and np.isnan(v))) else v for v in fr["name"]]
                for c in ("p_bar", "t_k"):
                    if t == "ext_grid" and c in fr.columns:
                        fr[c] = fr[c].astype(float)
            d = spec.frames_equal(x, y, check_dtype=True)
            if d:
                vs.append(viol("bulk_vs_single", "create_%s (sector %s): table %s differs: %s" % (what, sector, t, d), table=t,
                               kind=d.split(" ")[0], **tag))
    return {"status": "ok", "violations": vs, "nontrivial": True, "sig": core.jhash(case)}


def std_vs_params():
    vs = []
    net = pp.create_empty_network(fluid="water")
    n = 0
    for name, par in sorted(net.std_types["pipe"].items()):
        a = pp.create_empty_network(fluid="water")
        b = pp.create_empty_network(fluid="water")
        for x in (a, b):
            pp.create_junctions(x, 2, 5.0, 350.0)
        pp.create_pipe(a, 0, 1, name, 0.3, sections=2, text_k=280.0)
        kw = {"inner_diameter_mm": par["inner_diameter_mm"], "k_mm": par["k_mm"]}
        if not pd.isnull(par.get("outer_diameter_mm")):
            kw["outer_diameter_mm"] = par["outer_diameter_mm"]
        if not pd.isnull(par.get("u_w_per_m2k")):
            kw["u_w_per_m2k"] = par["u_w_per_m2k"]
        elif not pd.isnull(par.get("u_w_per_mk")):
            kw["u_w_per_m2k"] = par["u_w_per_mk"] / (par["outer_diameter_mm"] * np.pi) * 1000.0
        pp.create_pipe_from_parameters(b, 0, 1, 0.3, sections=2, text_k=280.0, **kw)
        n += 1
        for c in ("inner_diameter_mm", "outer_diameter_mm", "k_mm", "u_w_per_m2k", "length_km", "sections", "loss_coefficient", "text_k"):
            x, y = a.pipe.at[0, c], b.pipe.at[0, c]
            if c == "u_w_per_m2k":  # a type without heat transfer data: NaN and 0 both mean 'no heat loss'
                x, y = (0.0 if pd.isnull(x) else x), (0.0 if pd.isnull(y) else y)
            if not ((pd.isnull(x) and pd.isnull(y)) or abs(float(x) - float(y)) <= 1e-12 * max(1.0, abs(float(y)))):
                vs.append(viol("std_type_vs_parameters", "pipe type %s: column %s = %r from std type, %r from its parameters" % (name, c, x, y), col=c))
                break
    # pumps
    for name in ("P1", "P2", "P3"):
        a = pp.create_empty_network(fluid="water")
        b = pp.create_empty_network(fluid="water")
        for x in (a, b):
            pp.create_junctions(x, 3, 3.0, 300.0)
            pp.create_ext_grid(x, 0, 3.0, 300.0)
            pp.create_pipe_from_parameters(x, 1, 2, 0.1, 80.0)
            pp.create_sink(x, 2, 4.0)
        pp.create_pump(a, 0, 1, name)
        st = a.std_types["pump"][name]
        pp.create_pump_from_parameters(b, 0, 1, "copy_" + name, poly_coefficents=list(st.reg_par))
        pp.pipeflow(a, use_numba=False)
        pp.pipeflow(b, use_numba=False)
        n += 1
        if not np.allclose(a.res_junction.p_bar.values, b.res_junction.p_bar.values, rtol=1e-10):
            vs.append(viol("std_type_vs_parameters", "pump %s: pressures %s from std type, %s from its coefficients" % (
                name, a.res_junction.p_bar.values, b.res_junction.p_bar.values), col="pump"))
    return {"status": "ok", "violations": vs, "nontrivial": n > 10, "sig": "std", "info": {"std_types_compared": n}}


def bulk_series(case):
    """per-element arguments given as pandas Series with the default RangeIndex on a table that already holds nexist rows
    (labels of the Series partially overlap the new indices for 0 < nexist < n)"""
    what, nexist = case["what"], case["nexist"]
    vs = []
    nets = []
    for mode in ("bulk", "single"):
        net = make_net("junction_only", "all")
        vals = [0.11, 0.22, 0.33]
        sc = [1.0, 2.0, 0.5]
        for i in range(nexist):
            if what in ("sinks", "sources"):
                getattr(pp, "create_" + what[:-1])(net, 0, 0.01 * (i + 1))
            elif what == "pipes_from_parameters":
                pp.create_pipe_from_parameters(net, 0, 1, 0.1, 50.0)
            else:
                pp.create_flow_control(net, 0, 1, 0.01)
        try:
            if what in ("sinks", "sources"):
                if mode == "bulk":
                    getattr(pp, "create_" + what)(net, [0, 1, 2], pd.Series(vals), scaling=pd.Series(sc))
                else:
                    for j, m, c in zip([0, 1, 2], vals, sc):
                        getattr(pp, "create_" + what[:-1])(net, j, m, scaling=c)
                table = what[:-1]
            elif what == "pipes_from_parameters":
                if mode == "bulk":
                    pp.create_pipes_from_parameters(net, [0, 1, 2], [1, 2, 5], pd.Series(vals), pd.Series([50.0, 60.0, 70.0]), sections=pd.Series([1, 2, 3]))
                else:
                    for a, b, L, d, sct in zip([0, 1, 2], [1, 2, 5], vals, [50.0, 60.0, 70.0], [1, 2, 3]):
                        pp.create_pipe_from_parameters(net, a, b, L, d, sections=sct)
                table = "pipe"
            else:
                if mode == "bulk":
                    pp.create_flow_controls(net, [0, 1, 2], [1, 2, 5], pd.Series(vals), control_active=pd.Series([True, False, True]))
                else:
                    for a, b, m, act in zip([0, 1, 2], [1, 2, 5], vals, [True, False, True]):
                        pp.create_flow_control(net, a, b, m, control_active=act)
                table = "flow_control"
            nets.append(("ok", net[table].copy()))
        except Exception as e:
            nets.append(("raised:" + type(e).__name__, None))
    if nets[0][0] != nets[1][0]:
        vs.append(viol("bulk_vs_single_verdict", "create_%s with Series arguments on a table with %d rows: bulk %s, singles %s" % (
            what, nexist, nets[0][0], nets[1][0]), what=what))
    elif nets[0][1] is not None:
        a, b = nets[0][1].copy(), nets[1][1].copy()
        for fr in (a, b):
            for c in ("name", "std_type"):
                if c in fr.columns:
                    fr[c] = [None if (v is None or v == "" or (isinstance(v, float) and np.isnan(v))) else v for v in fr[c]]
        d = spec.frames_equal(a, b)
        if d:
            vs.append(viol("bulk_vs_single", "create_%s with Series arguments on a table with %d existing rows: %s" % (what, nexist, d),
                           what=what, table=what, kind="series"))
    return {"status": "ok", "violations": vs, "nontrivial": True, "sig": core.jhash(case)}


def history_case(case):
    net = make_net(case["net"], case["sector"])
    R = registry(case["net"] == "populated")
    table, kw, jargs, bulk = R[case["fn"]]
    fn = getattr(pp, case["fn"])
    vs = []
    tag = {"fn": case["fn"]}
    if case["fn"] in ("create_pump_from_parameters",):
        kw = dict(kw)
    try:
        ret = call(fn, net, kw)
    except Exception as e:
        return {"status": "ok", "violations": [], "nontrivial": False, "sig": core.jhash(case)}
    idx = list(ret) if bulk else ret
    before = snapshot(net)
    kw2 = dict(copy.deepcopy(kw), index=idx)
    if "new_std_type_name" in kw2:
        kw2["new_std_type_name"] = "mypump2"
    try:
        call(fn, net, kw2)
        vs.append(viol("invalid_call_accepted", "%s called twice with index %s on %s/%s net: second call accepted" % (
            case["fn"], idx, case["net"], case["sector"]), fault="duplicate_index_after_valid", **tag))
    except Exception as e:
        d = snap_diff(before, snapshot(net))
        if d and not d.startswith("std_types"):
            vs.append(viol("rejected_call_changed_net", "%s with duplicate index %s raised %s but changed the net: %s" % (
                case["fn"], idx, type(e).__name__, d), what="table rows" if d.startswith("table") else d.split(":")[0],
                fault="duplicate_index_after_valid", **tag))
    # third call: valid again, automatic index
    n0 = len(net[table])
    kw3 = copy.deepcopy(kw)
    if "new_std_type_name" in kw3:
        kw3["new_std_type_name"] = "mypump3"
    try:
        ret3 = call(fn, net, kw3)
        new = list(ret3) if bulk else [ret3]
        if set(new) & set(idx if bulk else [idx]):
            vs.append(viol("index_not_unique", "%s: third call reused index %s" % (case["fn"], new), **tag))
        if not net[table].index.is_unique:
            vs.append(viol("index_not_unique", "%s: table index %s" % (case["fn"], list(net[table].index)), **tag))
        exp = kw.get("nr_junctions") or (len(next(v for v in kw.values() if isinstance(v, list))) if bulk else 1)
        if len(net[table]) - n0 != exp:
            vs.append(viol("row_count", "%s third call: %d rows added, %d requested" % (case["fn"], len(net[table]) - n0, exp), **tag))
    except Exception as e:
        vs.append(viol("valid_call_refused", "%s: valid call after a rejected one raised %s: %s" % (case["fn"], type(e).__name__, str(e)[:100]),
                       sector=case["sector"], **tag))
    return {"status": "ok", "violations": vs, "nontrivial": True, "sig": core.jhash(case)}
