"""C20 - multi-energy coupling conserves energy and equals the decoupled calculation.
Enumerated multinets (power net + 1-2 gas nets), controller kinds x placements x efficiencies x scalings x scalar /
vector indices (incl. gapped index) x orders / levels, round trips, infeasible member, short time series;
oracle = conversion arithmetic from the data files, stand-alone member calculations, conjunction of converged flags."""
import copy
import itertools
import os
import numpy as np
import pandas as pd
from mc import core, spec
from mc.core import viol
import pandapipes as pp
import pandapower as ppw
from pandapipes.multinet.create_multinet import create_empty_multinet, add_net_to_multinet
from pandapipes.multinet.control.controller.multinet_control import P2GControlMultiEnergy, G2PControlMultiEnergy, GasToGasConversion
from pandapipes.multinet.control import run_control_multinet as rcm
from pandapipes.multinet.timeseries.run_time_series_multinet import run_timeseries as run_timeseries_mn

ID = "C20"
CASE_WEIGHT = 12   # relative cost of one case (pool sizing)
LEVEL = "model_checking"
RULE = ("state = multinet (power net + hgas net [+ hydrogen net]) after each control level; cases: every controller kind "
        "(P2G, G2P gas-led on sgen / load / gen, G2P power-led, G2G) x efficiency {1, 0.7} x scaling of the coupled element "
        "{1, 0.5, per-element (0.5, 2)} x index form {scalar, vector, vector over a gapped table index} x chains of two "
        "controllers in all orders on one level and on two levels (P2G -> G2G, G2G -> G2P) x feasible / infeasible gas "
        "member; round trips P2G then G2P; time series of 3 steps with a ConstControl on the power side (P2G) and on the gas side (gas-led G2P, members "
        "added in both orders). transitions = "
        "control runs / time steps.")
ASSUMPTIONS = ["heating values read by the harness from properties/<fluid>/higher_heating_value.txt",
               "pandapower's controller loop and power flow are trusted; stand-alone reference = deepcopy of the member net with "
               "the written values, solved by pipeflow / runpp"]
PROPDIR = os.path.join(os.path.dirname(pp.__file__), "properties")


def hhv(fluid):
    for line in open(os.path.join(PROPDIR, fluid, "higher_heating_value.txt")):
        line = line.split("#")[0].strip()
        if line:
            return float(line)


def gas_net(fluid, infeasible=False):
    net = pp.create_empty_network("gas_" + fluid, fluid=fluid)
    j = pp.create_junctions(net, 3, pn_bar=30.0, tfluid_k=283.0)
    pp.create_ext_grid(net, j[0], p_bar=30.0, t_k=283.0)
    d = 300.0
    pp.create_pipe_from_parameters(net, j[0], j[1], 1.0, d)
    pp.create_pipe_from_parameters(net, j[1], j[2], 1.0, d)
    # gapped element indices: position != label
    pp.create_source(net, j[1], 0.0, index=1)
    pp.create_source(net, j[2], 0.0, index=4)
    pp.create_source(net, j[2], 0.0, index=2)
    pp.create_sink(net, j[1], 0.003, index=3)
    pp.create_sink(net, j[2], 0.005, index=0)
    pp.create_sink(net, j[2], 0.002, index=5)
    if infeasible:
        # a member that cannot be calculated (the linear real-gas law lets almost every demand 'converge', a missing
        # diameter does not)
        net.pipe.loc[net.pipe.index[1], "inner_diameter_mm"] = np.nan
    return net


def power_net():
    net = ppw.create_empty_network()
    b = ppw.create_buses(net, 3, 20.0)
    ppw.create_ext_grid(net, b[0])
    ppw.create_line(net, b[0], b[1], 1.0, "NAYY 4x50 SE")
    ppw.create_line(net, b[1], b[2], 1.0, "NAYY 4x50 SE")
    ppw.create_load(net, b[1], 0.4, index=2)
    ppw.create_load(net, b[2], 0.2, index=5)
    ppw.create_load(net, b[2], 0.1, index=3)
    ppw.create_sgen(net, b[1], 0.0, index=4)
    ppw.create_sgen(net, b[2], 0.0, index=1)
    ppw.create_gen(net, b[2], 0.0, vm_pu=1.0, index=0)
    return net


def cases(tier):
    out = []
    effs = [1.0, 0.7]
    scal = ["one", "half", "mixed"]
    idxf = ["scalar", "vector", "vector_rev"]
    for eff in effs:
        for sc in scal:
            for ix in idxf:
                out.append({"kind": "single", "ctrl": "p2g", "eff": eff, "scaling": sc, "index": ix})
                out.append({"kind": "single", "ctrl": "g2p_gas_led_sgen", "eff": eff, "scaling": sc, "index": ix})
                out.append({"kind": "single", "ctrl": "g2p_power_led_sgen", "eff": eff, "scaling": sc, "index": ix})
                out.append({"kind": "single", "ctrl": "g2g", "eff": eff, "scaling": sc, "index": ix})
            out.append({"kind": "single", "ctrl": "g2p_gas_led_load", "eff": eff, "scaling": sc, "index": "scalar"})
            out.append({"kind": "single", "ctrl": "g2p_gas_led_gen", "eff": eff, "scaling": sc, "index": "scalar"})
    for e1, e2 in itertools.product(effs, repeat=2):
        for sc in scal[:2]:
            out.append({"kind": "roundtrip", "e1": e1, "e2": e2, "scaling": sc})
    for chain in ("p2g_then_g2g", "g2g_then_g2p", "p2g_and_g2p"):
        for layout in ("same_level_order01", "same_level_order10", "two_levels", "two_levels_swapped"):
            for eff in effs:
                for infeasible in (False, True):
                    out.append({"kind": "chain", "chain": chain, "layout": layout, "eff": eff, "infeasible": infeasible})
    for eff in effs:
        for ix in ("scalar", "vector"):
            for prof in ([0.1, 0.5, 0.3], [0.4, 0.0, 0.2]):
                out.append({"kind": "timeseries", "eff": eff, "index": ix, "profile": prof})
    # the profile sits in the gas net (net-local ConstControl there, none in the power net), gas-led G2P; every member order
    for eff in effs:
        for order in ("power_first", "gas_first"):
            for prof in ([0.004, 0.02, 0.008], [0.01, 0.0, 0.015]):
                out.append({"kind": "timeseries_gas", "eff": eff, "order": order, "profile": prof})
    return out


def sc_values(kind):
    return {"one": [1.0, 1.0], "half": [0.5, 0.5], "mixed": [0.5, 2.0]}[kind]


def check_members(mn, vs, where, tag):
    """every member net holds the results of a stand-alone calculation with the values now in its tables"""
    for name, net in mn["nets"].items():
        ref = copy.deepcopy(net)
        try:
            if isinstance(ref, pp.pandapipesNet):
                pp.pipeflow(ref)
                ok = True
            else:
                ppw.runpp(ref)
                ok = True
        except Exception:
            ok = False
        if not ok:
            if net.get("converged", False):
                vs.append(viol("member_marked_converged", "%s: member %s cannot be solved stand-alone but is marked converged" % (where, name), **tag))
            continue
        for t in [k for k in ref.keys() if k.startswith("res_") and isinstance(ref[k], pd.DataFrame) and len(ref[k])]:
            if t not in net or len(net[t]) != len(ref[t]):
                vs.append(viol("member_results_missing", "%s: member %s has no %s" % (where, name, t), member=name, **tag))
                break
            a = net[t].select_dtypes(include=[np.number]).values.astype(float)
            b = ref[t].select_dtypes(include=[np.number]).values.astype(float)
            if a.shape != b.shape or not np.all((np.isnan(a) & np.isnan(b)) | (np.abs(a - b) <= 1e-8 + 1e-6 * np.abs(b))):
                vs.append(viol("member_results_stale", "%s: member %s table %s differs from the stand-alone calculation with the written values" % (
                    where, name, t), member="gas" if name.startswith("gas") else name, table=t, **tag))
                break


def run_case(case):
    vs = []
    transitions = 0
    states = []
    k = case["kind"]
    tag = {"kind": k}
    if k == "single":
        mn = create_empty_multinet("m")
        p = power_net()
        g = gas_net("hgas")
        h = gas_net("hydrogen")
        add_net_to_multinet(mn, p, "power")
        add_net_to_multinet(mn, g, "gas")
        add_net_to_multinet(mn, h, "gas2")
        sc = sc_values(case["scaling"])
        eff = case["eff"]
        ix = case["index"]
        fH, fH2 = hhv("hgas"), hhv("hydrogen")
        ctrl = case["ctrl"]
        tag["ctrl"] = ctrl
        tag["index"] = "scalar" if ix == "scalar" else "vector"
        where = "%s eff=%s scaling=%s index=%s" % (ctrl, eff, case["scaling"], ix)

        _orig_run = rcm.run_control

        def safe_run(m):
            try:
                _orig_run(m)
                return True
            except Exception as e:
                vs.append(viol("control_run_raises", "%s: run_control raised %s: %s" % (where, type(e).__name__, str(e)[:100]),
                               exc=type(e).__name__, **tag))
                return False

        def sel(labels):
            if ix == "scalar":
                return labels[0]
            return list(labels) if ix == "vector" else list(labels[::-1])
        if ctrl == "p2g":
            labs = [5, 3]                     # loads with labels 5 and 3 (table positions 1 and 2)
            p.load.loc[labs, "scaling"] = sc
            tgt = [4, 2]
            P2GControlMultiEnergy(mn, sel(labs), sel(tgt), efficiency=eff)
            if not safe_run(mn):
                return {"status": "ok", "violations": vs, "states": [], "transitions": 1, "traces": 1, "nontrivial": True, "sig": core.jhash(case)}
            inp = {l: p.load.at[l, "p_mw"] * p.load.at[l, "scaling"] for l in labs}
            pairs = list(zip(labs, tgt)) if ix != "scalar" else [(labs[0], tgt[0])]
            for l, t in pairs:
                want = inp[l] * 1e3 / (fH * 3600) * eff
                got = g.source.at[t, "mdot_kg_per_s"]
                if not abs(got - want) <= 1e-12 * max(1.0, abs(want)):
                    vs.append(viol("written_value", "%s: source %s mdot %r, load %s scaled power %r MW -> %r kg/s" % (where, t, got, l, inp[l], want), **tag))
            untouched = [x for x in g.source.index if x not in [t for _, t in pairs]]
            if np.any(g.source.loc[untouched, "mdot_kg_per_s"].values != 0.0):
                vs.append(viol("wrote_other_element", "%s: sources %s were modified" % (where, untouched), **tag))
        elif ctrl.startswith("g2p_gas_led"):
            et = ctrl.split("_")[-1]
            labs = [0, 5]                     # sinks with labels 0 and 5
            g.sink.loc[labs, "scaling"] = sc
            tgt = {"sgen": [1, 4], "load": [3, 2], "gen": [0, 0]}[et]
            G2PControlMultiEnergy(mn, sel(tgt) if et != "gen" else 0, sel(labs) if et != "gen" else labs[0], efficiency=eff,
                                  element_type_power=et)
            if not safe_run(mn):
                return {"status": "ok", "violations": vs, "states": [], "transitions": 1, "traces": 1, "nontrivial": True, "sig": core.jhash(case)}
            pairs = list(zip(labs, tgt)) if ix != "scalar" else [(labs[0], tgt[0])]
            for s, t in pairs:
                want = g.sink.at[s, "mdot_kg_per_s"] * g.sink.at[s, "scaling"] * fH * 3600 / 1e3 * eff
                got = p[et].at[t, "p_mw"]
                if not abs(got - want) <= 1e-12 * max(1.0, abs(want)):
                    vs.append(viol("written_value", "%s: %s %s p_mw %r, sink %s scaled flow -> %r MW" % (where, et, t, got, s, want), **tag))
        elif ctrl == "g2p_power_led_sgen":
            labs = [1, 4]
            p.sgen.loc[labs, "p_mw"] = [0.3, 0.6]
            p.sgen.loc[labs, "scaling"] = sc
            tgt = [0, 5]
            G2PControlMultiEnergy(mn, sel(labs), sel(tgt), efficiency=eff, element_type_power="sgen", calc_gas_from_power=True)
            if not safe_run(mn):
                return {"status": "ok", "violations": vs, "states": [], "transitions": 1, "traces": 1, "nontrivial": True, "sig": core.jhash(case)}
            pairs = list(zip(labs, tgt)) if ix != "scalar" else [(labs[0], tgt[0])]
            for s, t in pairs:
                want = p.sgen.at[s, "p_mw"] * p.sgen.at[s, "scaling"] / (fH * 3600 / 1e3 * eff)
                got = g.sink.at[t, "mdot_kg_per_s"]
                if not abs(got - want) <= 1e-12 * max(1.0, abs(want)):
                    vs.append(viol("written_value", "%s: sink %s mdot %r, sgen %s scaled power -> %r kg/s" % (where, t, got, s, want), **tag))
        elif ctrl == "g2g":
            labs = [0, 5]
            h.sink.loc[labs, "scaling"] = sc
            tgt = [4, 2]
            GasToGasConversion(mn, sel(labs), sel(tgt), efficiency=eff, name_gas_net_from="gas2", name_gas_net_to="gas")
            if not safe_run(mn):
                return {"status": "ok", "violations": vs, "states": [], "transitions": 1, "traces": 1, "nontrivial": True, "sig": core.jhash(case)}
            pairs = list(zip(labs, tgt)) if ix != "scalar" else [(labs[0], tgt[0])]
            for s, t in pairs:
                want = h.sink.at[s, "mdot_kg_per_s"] * h.sink.at[s, "scaling"] * fH2 / fH * eff
                got = g.source.at[t, "mdot_kg_per_s"]
                if not abs(got - want) <= 1e-12 * max(1.0, abs(want)):
                    vs.append(viol("written_value", "%s: source %s mdot %r, hydrogen sink %s scaled flow -> %r kg/s (energy conserving)" % (
                        where, t, got, s, want), **tag))
        transitions += 1
        check_members(mn, vs, where, tag)
        states.append(core.jhash(case))
    elif k == "roundtrip":
        # P2G: load -> hgas source; the produced gas is burnt again: G2P gas-led from a sink carrying exactly that mass flow
        mn = create_empty_multinet("m")
        p, g = power_net(), gas_net("hgas")
        add_net_to_multinet(mn, p, "power")
        add_net_to_multinet(mn, g, "gas")
        sc = sc_values(case["scaling"])[0]
        p.load.at[5, "scaling"] = sc
        P2GControlMultiEnergy(mn, 5, 4, efficiency=case["e1"])
        rcm.run_control(mn)
        mn2 = create_empty_multinet("m2")
        p2, g2 = power_net(), gas_net("hgas")
        add_net_to_multinet(mn2, p2, "power")
        add_net_to_multinet(mn2, g2, "gas")
        g2.sink.at[0, "mdot_kg_per_s"] = g.source.at[4, "mdot_kg_per_s"]
        G2PControlMultiEnergy(mn2, 1, 0, efficiency=case["e2"], element_type_power="sgen")
        rcm.run_control(mn2)
        want = p.load.at[5, "p_mw"] * sc * case["e1"] * case["e2"]
        got = p2.sgen.at[1, "p_mw"]
        transitions += 2
        if not abs(got - want) <= 1e-12 * max(1.0, abs(want)):
            vs.append(viol("round_trip", "P=%r MW x %r x %r should return %r MW, got %r" % (p.load.at[5, "p_mw"] * sc, case["e1"], case["e2"], want, got), **tag))
        states.append(core.jhash(case))
    elif k == "chain":
        mn = create_empty_multinet("m")
        p = power_net()
        g = gas_net("hgas", infeasible=case["infeasible"])
        h = gas_net("hydrogen")
        add_net_to_multinet(mn, p, "power")
        add_net_to_multinet(mn, g, "gas")
        add_net_to_multinet(mn, h, "gas2")
        lay = case["layout"]
        lv = {"same_level_order01": ((0, 0), (1, 0)), "same_level_order10": ((1, 0), (0, 0)), "two_levels": ((0, 0), (0, 1)),
              "two_levels_swapped": ((0, 1), (0, 0))}[lay]
        (o1, l1), (o2, l2) = lv
        eff = case["eff"]
        ch = case["chain"]
        tag["chain"] = ch
        tag["layout"] = "one_level" if lay.startswith("same") else "two_levels"
        if ch == "p2g_then_g2g":
            # power -> hydrogen (electrolysis), hydrogen sink -> methane source (methanation)
            P2GControlMultiEnergy(mn, 5, 4, efficiency=eff, name_gas_net="gas2", order=o1, level=l1)
            GasToGasConversion(mn, 0, 2, efficiency=eff, name_gas_net_from="gas2", name_gas_net_to="gas", order=o2, level=l2)
        elif ch == "g2g_then_g2p":
            GasToGasConversion(mn, 0, 2, efficiency=eff, name_gas_net_from="gas2", name_gas_net_to="gas", order=o1, level=l1)
            G2PControlMultiEnergy(mn, 1, 5, efficiency=eff, element_type_power="sgen", order=o2, level=l2)
        else:
            P2GControlMultiEnergy(mn, 5, 4, efficiency=eff, order=o1, level=l1)
            G2PControlMultiEnergy(mn, 1, 0, efficiency=eff, element_type_power="sgen", order=o2, level=l2)
        where = "chain %s layout %s eff %s infeasible=%s" % (ch, lay, eff, case["infeasible"])
        seen = []
        orig = rcm._evaluate_multinet

        def spy(multinet, levelorder, ctrl_variables, **kw):
            r = orig(multinet, levelorder, ctrl_variables, **kw)
            seen.append((bool(r["converged"]), {n: bool(r["nets"][n]["converged"]) for n in r["nets"]}))
            return r
        rcm._evaluate_multinet = spy
        try:
            try:
                rcm.run_control(mn)
                raised = None
            except Exception as e:
                raised = e
        finally:
            rcm._evaluate_multinet = orig
        transitions += 1
        for conv, nets in seen:
            if conv and not all(nets.values()):
                vs.append(viol("converged_flag", "%s: multinet reported converged with member flags %s" % (where, nets), **tag))
        if case["infeasible"]:
            if raised is None:
                # the infeasible member must not be reported as a converged calculation
                if g.get("converged", False):
                    vs.append(viol("infeasible_member_converged", "%s: control run returned and the infeasible gas net is marked converged" % where, **tag))
        else:
            if raised is not None:
                vs.append(viol("control_run_raises", "%s: %s: %s" % (where, type(raised).__name__, str(raised)[:100]), exc=type(raised).__name__, **tag))
            else:
                check_members(mn, vs, where, tag)
        states.append(core.jhash(case))
    elif k == "timeseries":
        from pandapower.control import ConstControl
        from pandapower.timeseries import DFData, OutputWriter
        mn = create_empty_multinet("m")
        p, g = power_net(), gas_net("hgas")
        add_net_to_multinet(mn, p, "power")
        add_net_to_multinet(mn, g, "gas")
        prof = case["profile"]
        ds = DFData(pd.DataFrame({"l5": prof, "l3": [x * 0.5 for x in prof]}))
        ConstControl(p, element="load", variable="p_mw", element_index=[5, 3], data_source=ds, profile_name=["l5", "l3"])
        if case["index"] == "scalar":
            P2GControlMultiEnergy(mn, 5, 4, efficiency=case["eff"])
            pairs = [(5, 4)]
        else:
            P2GControlMultiEnergy(mn, [5, 3], [4, 2], efficiency=case["eff"])
            pairs = [(5, 4), (3, 2)]
        steps = list(range(len(prof)))
        ow_g = OutputWriter(g, steps, output_path=None, log_variables=[("res_junction", "p_bar"), ("source", "mdot_kg_per_s"), ("res_source", "mdot_kg_per_s")])
        ow_p = OutputWriter(p, steps, output_path=None, log_variables=[("res_bus", "vm_pu"), ("load", "p_mw")])
        where = "time series profile %s eff %s index %s" % (prof, case["eff"], case["index"])
        try:
            run_timeseries_mn(mn, time_steps=steps, verbose=False)
        except Exception as e:
            vs.append(viol("timeseries_raises", "%s: %s: %s" % (where, type(e).__name__, str(e)[:120]), exc=type(e).__name__, **tag))
            return {"status": "ok", "violations": vs, "states": [core.jhash(case)], "transitions": 1, "traces": 1, "nontrivial": True, "sig": core.jhash(case)}
        transitions += len(steps)
        fH = hhv("hgas")
        for t in steps:
            gref = gas_net("hgas")
            for (l, s), col in zip(pairs, ("l5", "l3")):
                val = {"l5": prof[t], "l3": prof[t] * 0.5}[col]
                gref.source.at[s, "mdot_kg_per_s"] = val * 1e3 / (fH * 3600) * case["eff"]
            pp.pipeflow(gref)
            got_src = ow_g.output["source.mdot_kg_per_s"].loc[t].values.astype(float)
            want_src = gref.source.mdot_kg_per_s.values.astype(float)
            if not np.allclose(got_src, want_src, rtol=1e-10, atol=1e-14):
                vs.append(viol("timeseries_written_value", "%s: step %d source mdot %s, expected %s" % (where, t, got_src, want_src), **tag))
                break
            got_p = ow_g.output["res_junction.p_bar"].loc[t].values.astype(float)
            want_p = gref.res_junction.p_bar.values.astype(float)
            if not np.allclose(got_p, want_p, rtol=1e-7, atol=1e-9):
                vs.append(viol("timeseries_step_differs", "%s: step %d junction pressures %s, stand-alone %s" % (where, t, got_p, want_p), **tag))
                break
            states.append(core.jhash([case, t]))
    elif k == "timeseries_gas":
        from pandapower.control import ConstControl
        from pandapower.timeseries import DFData, OutputWriter
        mn = create_empty_multinet("m")
        p, g = power_net(), gas_net("hgas")
        for name in (("power", "gas") if case["order"] == "power_first" else ("gas", "power")):
            add_net_to_multinet(mn, p if name == "power" else g, name)
        tag["order"] = case["order"]
        prof = case["profile"]
        ds = DFData(pd.DataFrame({"s0": prof}))
        ConstControl(g, element="sink", variable="mdot_kg_per_s", element_index=[0], data_source=ds, profile_name=["s0"])
        G2PControlMultiEnergy(mn, 1, 0, efficiency=case["eff"], element_type_power="sgen")
        steps = list(range(len(prof)))
        ow_g = OutputWriter(g, steps, output_path=None, log_variables=[("res_junction", "p_bar"), ("sink", "mdot_kg_per_s"), ("res_sink", "mdot_kg_per_s")])
        ow_p = OutputWriter(p, steps, output_path=None, log_variables=[("res_bus", "vm_pu"), ("sgen", "p_mw"), ("res_sgen", "p_mw")])
        where = "time series, profile %s on a gas sink, gas-led G2P eff %s, members added %s" % (prof, case["eff"], case["order"])
        try:
            run_timeseries_mn(mn, time_steps=steps, verbose=False)
        except Exception as e:
            vs.append(viol("timeseries_raises", "%s: %s: %s" % (where, type(e).__name__, str(e)[:120]), exc=type(e).__name__, **tag))
            return {"status": "ok", "violations": vs, "states": [core.jhash(case)], "transitions": 1, "traces": 1, "nontrivial": True, "sig": core.jhash(case)}
        transitions += len(steps)
        fH = hhv("hgas")
        for t in steps:
            gref, pref = gas_net("hgas"), power_net()
            gref.sink.at[0, "mdot_kg_per_s"] = prof[t]
            pp.pipeflow(gref)
            pref.sgen.at[1, "p_mw"] = prof[t] * fH * 3600 / 1e3 * case["eff"]
            ppw.runpp(pref)
            for key, got, want, tol in (
                    ("gas sink.mdot_kg_per_s", ow_g.output["sink.mdot_kg_per_s"].loc[t].values, gref.sink.mdot_kg_per_s.values, 1e-12),
                    ("gas res_sink.mdot_kg_per_s", ow_g.output["res_sink.mdot_kg_per_s"].loc[t].values, gref.res_sink.mdot_kg_per_s.values, 1e-9),
                    ("gas res_junction.p_bar", ow_g.output["res_junction.p_bar"].loc[t].values, gref.res_junction.p_bar.values, 1e-7),
                    ("power sgen.p_mw", ow_p.output["sgen.p_mw"].loc[t].values, pref.sgen.p_mw.values, 1e-10),
                    ("power res_sgen.p_mw", ow_p.output["res_sgen.p_mw"].loc[t].values, pref.res_sgen.p_mw.values, 1e-8),
                    ("power res_bus.vm_pu", ow_p.output["res_bus.vm_pu"].loc[t].values, pref.res_bus.vm_pu.values, 1e-8)):
                got = np.asarray(got, dtype=float)
                want = np.asarray(want, dtype=float)
                if got.shape != want.shape or not np.allclose(got, want, rtol=tol, atol=1e-12):
                    vs.append(viol("timeseries_step_differs", "%s: step %d %s logged %s, stand-alone %s" % (where, t, key, got, want),
                                   var=key, **tag))
                    break
            states.append(core.jhash([case, t]))
    return {"status": "ok", "violations": vs, "states": states, "transitions": transitions, "traces": 1, "nontrivial": True,
            "sig": core.jhash(case)}
