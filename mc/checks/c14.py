"""C14 - option precedence call > user > defaults, iter expansion per layer, couplings, no mutation.
Exhaustive product over every option key x presence pattern in the three layers (+ pairs of keys in
thorough), BFS over set_user_pf_options histories; oracle = reference model of the documented merge."""
import copy
import itertools
import re
import numpy as np
from mc import core
from mc.core import viol
import pandapipes as pp
from pandapipes.pf import pipeflow_setup as ps

ID = "C14"
CASE_WEIGHT = 1   # relative cost of one case (pool sizing)
LEVEL = "model_checking"
RULE = ("state = (default layer, user layer, call layer) of option dictionaries; for every option key (all keys of the "
        "stored defaults + iter + an unknown key) all 2^2 presence patterns in user/call layers with pairwise distinct "
        "values, iter x max_iter_* presence in each layer (full product), mode alias in each layer, "
        "reuse_internal_data x only_update_hydraulic_matrix (full product over layers), numba (un)available; thorough: "
        "all pairs of keys; BFS over set_user_pf_options(reset) histories depth<=3. Transition = one real "
        "init_options/pipeflow call; every resolved dictionary is compared key by key with the reference model.")
ASSUMPTIONS = ["documented defaults = the '- **key** (type): value' lines of the init_options docstring (rendered in "
               "doc/source/pipeflow/options.rst) for the keys listed there; the stored default dictionary for the rest",
               "net._options after init_options is the observation point named by the property"]

MODES = ("hyd", "therm", "bidirect")
# pinned copy of the stored defaults (a change of a stored default value is a change of documented behaviour)
PINNED_DEFAULTS = {
    "friction_model": "nikuradse", "tol_p": 1e-5, "tol_m": 1e-5, "tol_T": 1e-3, "tol_res": 1e-3, "max_iter_hyd": 10,
    "max_iter_therm": 10, "max_iter_bidirect": 10, "error_flag": False, "alpha": 1, "nonlinear_method": "constant",
    "mode": "hydraulics", "ambient_temperature": 293.15, "check_connectivity": True, "max_iter_colebrook": 10,
    "only_update_hydraulic_matrix": False, "reuse_internal_data": False, "use_numba": True,
    "quit_on_inconsistency_connectivity": False, "calc_compression_power": True, "transient": False, "dt": None,
    "tolerance_colebrook": 1e-4}


def alt_values(key, default):
    """two distinct non-default values for a key (user value, call value)"""
    table = {
        "friction_model": ("colebrook", "swamee-jain"), "nonlinear_method": ("automatic", "constant_x"),
        "mode": ("sequential", "bidirectional"), "dt": (30, 60), "iter": (3, 4), "my_unknown_option": ("u", "c"),
    }
    if key in table:
        return table[key]
    if isinstance(default, bool):
        return (not default, not default)
    if isinstance(default, int):
        return (default + 7, default + 13)
    if isinstance(default, float):
        return (default * 3.0, default * 7.0)
    return ("user_%s" % key, "call_%s" % key)


def reference(defaults, user, call, numba_installed, fluid_name):
    def expand(layer):
        l = dict(layer)
        if l.get("iter") is not None:
            for m in MODES:
                l.setdefault("max_iter_%s" % m, l["iter"])
        return l
    r = dict(defaults)
    r.update(expand(user))
    r.update(expand(call))
    for k in ("interactive_plotting", "t_start"):
        r.pop(k, None)
    if not r["only_update_hydraulic_matrix"]:
        r["reuse_internal_data"] = False
    if not numba_installed:
        r["use_numba"] = False
    r["fluid"] = fluid_name
    r.pop("hyd_flag", None)  # documented internal marker stored with the user options by a converged run
    if r["mode"] == "all":
        r["mode"] = "sequential"
    return r


def documented_defaults():
    doc = ps.init_options.__doc__ or ""
    out = {}
    for m in re.finditer(r"-\s+\*\*(\w+)\*\*\s+\((\w+)\):\s+(\"[^\"]*\"|[^\s]+)\s+-", doc):
        key, typ, val = m.group(1), m.group(2), m.group(3)
        try:
            if typ == "str":
                v = val.strip('"')
            elif typ == "bool":
                v = val == "True"
            elif typ == "int":
                v = int(val)
            else:
                v = float(val)
        except ValueError:
            continue
        out[key] = v
    return out


def layer_cases(tier):
    keys = list(PINNED_DEFAULTS.keys()) + ["iter", "my_unknown_option"]
    cs = []
    # 1. single key: presence patterns user x call
    for k in keys:
        u, c = alt_values(k, PINNED_DEFAULTS.get(k))
        for pu in (False, True):
            for pc in (False, True):
                cs.append({"kind": "layers", "user": {k: u} if pu else {}, "call": {k: c} if pc else {}})
    # 1b. the call repeats the default value while the user layer holds another one (call must still win)
    for k in PINNED_DEFAULTS:
        u, c = alt_values(k, PINNED_DEFAULTS.get(k))
        cs.append({"kind": "layers", "user": {k: u}, "call": {k: PINNED_DEFAULTS[k]}})
        cs.append({"kind": "layers", "user": {k: PINNED_DEFAULTS[k]}, "call": {k: c}})
    # 2. iter x max_iter_* : full product of presence in both layers
    names = ["iter"] + ["max_iter_%s" % m for m in MODES]
    vals_u = {"iter": 3, "max_iter_hyd": 21, "max_iter_therm": 22, "max_iter_bidirect": 23}
    vals_c = {"iter": 4, "max_iter_hyd": 31, "max_iter_therm": 32, "max_iter_bidirect": 33}
    for pu in itertools.product([0, 1], repeat=4):
        for pc in itertools.product([0, 1], repeat=4):
            cs.append({"kind": "layers", "user": {n: vals_u[n] for n, p in zip(names, pu) if p},
                       "call": {n: vals_c[n] for n, p in zip(names, pc) if p}})
    # 3. mode alias in each layer
    for mu in (None, "all", "hydraulics", "sequential"):
        for mc_ in (None, "all", "bidirectional"):
            cs.append({"kind": "layers", "user": {} if mu is None else {"mode": mu},
                       "call": {} if mc_ is None else {"mode": mc_}})
    # 4. coupling reuse_internal_data x only_update_hydraulic_matrix over layers
    for ru, ou, rc, oc in itertools.product([None, False, True], repeat=4):
        u = {k: v for k, v in (("reuse_internal_data", ru), ("only_update_hydraulic_matrix", ou)) if v is not None}
        c = {k: v for k, v in (("reuse_internal_data", rc), ("only_update_hydraulic_matrix", oc)) if v is not None}
        cs.append({"kind": "layers", "user": u, "call": c})
    # 5. numba unavailable
    for nu in (None, True, False):
        for nc in (None, True, False):
            cs.append({"kind": "layers", "numba_installed": False, "user": {} if nu is None else {"use_numba": nu},
                       "call": {} if nc is None else {"use_numba": nc}})
    # 6. excluded keys
    cs.append({"kind": "layers", "user": {"interactive_plotting": True}, "call": {"t_start": 5}})
    if tier == "thorough":
        for k1, k2 in itertools.combinations(keys, 2):
            u1, c1 = alt_values(k1, PINNED_DEFAULTS.get(k1))
            u2, c2 = alt_values(k2, PINNED_DEFAULTS.get(k2))
            for p in itertools.product([0, 1], repeat=4):
                user, call = {}, {}
                if p[0]:
                    user[k1] = u1
                if p[1]:
                    call[k1] = c1
                if p[2]:
                    user[k2] = u2
                if p[3]:
                    call[k2] = c2
                cs.append({"kind": "layers", "user": user, "call": call})
    return cs


HIST_OPS = [
    ("set", {"tol_p": 3e-5}), ("set", {"iter": 5}), ("set", {"max_iter_hyd": 17}), ("set", {"mode": "all"}),
    ("reset_set", {"tol_m": 2e-5}), ("reset", {}), ("pf", {}), ("pf", {"iter": 6}), ("pf", {"tol_p": 9e-6, "max_iter_hyd": 12}),
]


def cases(tier):
    cs = layer_cases(tier)
    depth = 2 if tier == "quick" else 3
    for h in range(1, depth + 1):
        for seq in itertools.product(range(len(HIST_OPS)), repeat=h):
            cs.append({"kind": "history", "ops": list(seq)})
    cs.append({"kind": "docdefaults"})
    cs.append({"kind": "effects"})
    return cs


def _net():
    net = pp.create_empty_network(fluid="water")
    j = pp.create_junctions(net, 2, 5, 300)
    pp.create_ext_grid(net, j[0], 5, 300)
    pp.create_pipe_from_parameters(net, j[0], j[1], 0.1, 50)
    pp.create_sink(net, j[1], 0.1)
    return net


def warmup():
    from mc import spec
    spec.warmup_numba()


def _cmp(got, exp, where, vs, **tags):
    got = dict(got)
    got.pop("hyd_flag", None)
    for k in sorted(set(got) | set(exp)):
        if k not in got:
            vs.append(viol("resolved_option", "%s: key %r missing (expected %r)" % (where, k, exp[k]), key=k, **tags))
        elif k not in exp:
            vs.append(viol("resolved_option", "%s: unexpected key %r=%r" % (where, k, got[k]), key=k, **tags))
        elif got[k] != exp[k] or type(got[k]) is not type(exp[k]) and not (
                isinstance(got[k], (int, float)) and isinstance(exp[k], (int, float))):
            vs.append(viol("resolved_option", "%s: %r resolved to %r, reference model says %r" % (where, k, got[k], exp[k]),
                           key=k, **tags))


def run_case(case):
    vs = []
    states = []
    transitions = 0
    kind = case["kind"]
    if kind == "layers":
        net = _net()
        user, call = case["user"], case["call"]
        if user:
            pp.set_user_pf_options(net, **copy.deepcopy(user))
        ni = case.get("numba_installed", True)
        old_ni = ps.numba_installed
        defaults_before = copy.deepcopy(ps.default_options)
        user_before = copy.deepcopy(net.get("user_pf_options", {}))
        call_arg = copy.deepcopy(call)
        try:
            ps.numba_installed = ni
            ps.init_options(net, **call_arg)
        finally:
            ps.numba_installed = old_ni
        transitions += 1
        exp = reference(PINNED_DEFAULTS, user, call, ni, "water")
        got = dict(net["_options"])
        _cmp(got, exp, "user=%s call=%s" % (user, call), vs, layer="u%dc%d" % (bool(user), bool(call)))
        if ps.default_options != defaults_before or ps.default_options != PINNED_DEFAULTS:
            vs.append(viol("defaults_mutated", "default_options changed: %s" % {
                k: (defaults_before.get(k), ps.default_options.get(k)) for k in set(defaults_before) | set(ps.default_options)
                if defaults_before.get(k) != ps.default_options.get(k) or PINNED_DEFAULTS.get(k) != ps.default_options.get(k)}))
        if net.get("user_pf_options", {}) != user_before:
            vs.append(viol("user_options_mutated", "user_pf_options %s -> %s" % (user_before, net.user_pf_options)))
        if call_arg != call:
            vs.append(viol("call_kwargs_mutated", "%s -> %s" % (call, call_arg)))
        # nested mutable value must not be shared
        states.append(core.jhash(["L", user, call, ni]))
        return {"status": "ok", "violations": vs, "states": states, "transitions": transitions, "traces": 1,
                "nontrivial": bool(user or call), "sig": core.jhash(sorted(got.items(), key=str))}
    if kind == "history":
        net = _net()
        model_user = {}
        for oi in case["ops"]:
            op, kw = HIST_OPS[oi]
            defaults_before = copy.deepcopy(ps.default_options)
            if op == "set":
                pp.set_user_pf_options(net, **copy.deepcopy(kw))
                model_user.update(kw)
            elif op == "reset_set":
                pp.set_user_pf_options(net, reset=True, **copy.deepcopy(kw))
                model_user = dict(kw)
            elif op == "reset":
                pp.set_user_pf_options(net, reset=True)
                model_user = {}
            else:
                ub = copy.deepcopy(dict(net.get("user_pf_options", {})))
                try:
                    pp.pipeflow(net, **copy.deepcopy(kw))
                    conv = True
                except Exception as e:
                    conv = False
                exp = reference(PINNED_DEFAULTS, model_user, kw, True, "water")
                _cmp(dict(net["_options"]), exp, "history %s" % case["ops"], vs, layer="hist")
                ua = dict(net.get("user_pf_options", {}))
                ua.pop("hyd_flag", None)
                ub.pop("hyd_flag", None)
                if ua != ub:
                    vs.append(viol("user_options_mutated", "pipeflow changed user options %s -> %s" % (ub, ua)))
            transitions += 1
            uo = dict(net.get("user_pf_options", {}))
            uo.pop("hyd_flag", None)
            if uo != model_user:
                vs.append(viol("user_options_store", "after %s stored user options %s, model %s" % (case["ops"], uo, model_user)))
            if ps.default_options != defaults_before:
                vs.append(viol("defaults_mutated", "default_options changed by %s" % op))
            states.append(core.jhash(["H", sorted(model_user.items())]))
        return {"status": "ok", "violations": vs, "states": states, "transitions": transitions, "traces": 1,
                "nontrivial": True, "sig": core.jhash(case["ops"])}
    if kind == "docdefaults":
        net = _net()
        ps.init_options(net)
        doc = documented_defaults()
        for k, v in doc.items():
            got = net["_options"].get(k)
            if got != v:
                vs.append(viol("documented_default", "option %s: default in force %r, documented default %r" % (k, got, v), key=k))
        return {"status": "ok", "violations": vs, "states": [core.jhash("doc")], "transitions": 1, "traces": 1,
                "nontrivial": len(doc) >= 10, "sig": "doc%d" % len(doc)}
    if kind == "effects":
        # observable effects of the resolved options
        # (a) iteration budget: non-converging setting -> iterations == resolved budget
        for user, call, exp_it in (({}, {"iter": 2}, 2), ({"iter": 3}, {}, 3), ({"iter": 3}, {"max_iter_hyd": 1}, 1),
                                   ({"max_iter_hyd": 2}, {"iter": 4}, 4), ({"iter": 2, "max_iter_hyd": 3}, {}, 3)):
            net = _net()
            if user:
                pp.set_user_pf_options(net, **user)
            try:
                pp.pipeflow(net, tol_p=1e-300, tol_m=1e-300, tol_res=0.0, **call)
                it = None
            except Exception:
                it = net["_internal_results"].get("iterations_hydraulics")
            transitions += 1
            if it != exp_it:
                vs.append(viol("effect_iterations", "user=%s call=%s: %s hydraulic iterations, expected %s" % (user, call, it, exp_it)))
        # (b) friction model in force changes lambda
        lam = {}
        for user, call, name in (({}, {}, "nikuradse"), ({"friction_model": "colebrook"}, {}, "colebrook"),
                                 ({"friction_model": "colebrook"}, {"friction_model": "swamee-jain"}, "swamee-jain")):
            net = _net()
            if user:
                pp.set_user_pf_options(net, **user)
            pp.pipeflow(net, **call)
            transitions += 1
            lam[name] = round(float(net.res_pipe["lambda"].iloc[0]), 8)
        if len(set(lam.values())) != 3:
            vs.append(viol("effect_friction", "friction models in force not distinguishable: %s" % lam))
        return {"status": "ok", "violations": vs, "states": [core.jhash("eff")], "transitions": transitions, "traces": 1,
                "nontrivial": True, "sig": "effects"}
    raise KeyError(kind)
