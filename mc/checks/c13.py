"""C13 - each time-series step equals a stand-alone calculation with that step's inputs.
All profile vectors over a value alphabet (incl. infeasible demand and a step that leaves the net unsupplied) x step
orders / subsets x continue_on_divergence; oracle = stand-alone pipeflow on a fresh net per step."""
import itertools
import numpy as np
import pandas as pd
from mc import core, spec
from mc.core import viol
import pandapipes as pp
from pandapipes.timeseries import run_timeseries
from pandapipes.pf.pipeflow_setup import PipeflowNotConverged
from pandapower.timeseries import DFData, OutputWriter
from pandapower.control import ConstControl
from pandapower.control.run_control import NetCalculationNotConverged

ID = "C13"
CASE_WEIGHT = 3   # relative cost of one case (pool sizing)
LEVEL = "model_checking"
RULE = ("state = (net object, position in the step list); per net (gas tree, water mesh) ALL profile vectors of length 3 "
        "(quick) / 4 (thorough) over the letter alphabet {low, mid, high demand, infeasible demand, feeder switched off} x "
        "step lists {all steps forward, reversed, single step, subsets, rotated} x continue_on_divergence {False, True} x "
        "(water mesh, additionally) ALL vectors over {mid, branch A switched off, branch B switched off} x solver option "
        "only_update_hydraulic_matrix {absent, True} x "
        "1-2 ConstControl objects; the gas tree additionally as member of a multinet (power member fed by a gas-led G2P unit, "
        "both member orders, run_timeseries of the multinet module); every logged step is compared with a stand-alone pipeflow on a freshly built net carrying "
        "that step's values. transitions = time steps executed by run_timeseries.")
ASSUMPTIONS = ["pandapower's ConstControl / OutputWriter / run_time_step loop are trusted; pandapipes' registration of pipeflow "
               "as run function and of PipeflowNotConverged as recognised error is under test",
               "a failed step is recognised by the OutputWriter's powerflow_failed flag; its logged values must not be "
               "results of another step"]
LETTERS = {"low": (0.5, True), "mid": (1.0, True), "high": (1.6, True), "infeasible": (400.0, True), "off": (1.0, False),
           # topology letters (water mesh only): one of the two branches below junction 1 is switched off
           "cutA": (1.0, True, (False, True)), "cutB": (1.3, True, (True, False))}
TOPO_LETTERS = ["mid", "cutA", "cutB"]
MAIN_LETTERS = ["low", "mid", "high", "infeasible", "off"]


def warmup():
    spec.warmup_numba()


def make_net(kind):
    if kind == "gas":
        net = pp.create_empty_network(fluid="lgas")
        j = pp.create_junctions(net, 4, pn_bar=1.0, tfluid_k=293.0)
        pp.create_ext_grid(net, j[0], p_bar=1.0, t_k=293.0)
        pp.create_pipe_from_parameters(net, j[0], j[1], 0.4, 60.0)
        pp.create_pipe_from_parameters(net, j[1], j[2], 0.3, 50.0, sections=2)
        pp.create_pipe_from_parameters(net, j[1], j[3], 0.3, 50.0)
        pp.create_sink(net, j[2], 0.01)
        pp.create_sink(net, j[3], 0.008)
        base = 0.01
    else:
        net = pp.create_empty_network(fluid="water")
        j = pp.create_junctions(net, 4, pn_bar=5.0, tfluid_k=300.0)
        pp.create_ext_grid(net, j[0], p_bar=5.0, t_k=300.0)
        pp.create_pipe_from_parameters(net, j[0], j[1], 0.3, 60.0)
        pp.create_pipe_from_parameters(net, j[1], j[2], 0.3, 50.0)
        pp.create_pipe_from_parameters(net, j[1], j[3], 0.3, 50.0)
        pp.create_pipe_from_parameters(net, j[2], j[3], 0.2, 40.0)
        pp.create_sink(net, j[2], 0.3)
        pp.create_sink(net, j[3], 0.2)
        base = 0.3
    return net, base


def step_lists(n, tier):
    full = list(range(n))
    out = [full, full[::-1], [1], [0, n - 1], [n - 1, 0], full[1:] + full[:1]]
    if tier == "thorough":
        out += [list(p) for p in itertools.permutations(full) if list(p) not in out][:8]
    return out


def cases(tier):
    n = 3 if tier == "quick" else 4
    out = []
    for kind in ("gas", "water"):
        for vec in itertools.product(MAIN_LETTERS, repeat=n):
            for si, steps in enumerate(step_lists(n, tier)):
                for cod in (False, True):
                    if tier == "quick" and si >= 3 and not any(l in ("infeasible", "off") for l in vec):
                        continue
                    out.append({"net": kind, "profile": list(vec), "steps": steps, "cod": cod, "two_controllers": (si % 2 == 1)})
    # multi-energy time series: the gas tree as member of a multinet (both member orders), profile incl. failing steps
    for vec in itertools.product(["mid", "high", "infeasible", "off"], repeat=n):
        for si, steps in enumerate(step_lists(n, tier)):
            for cod in (False, True):
                if tier == "quick" and (si >= 3 or (si > 0 and not any(l in ("infeasible", "off") for l in vec))):
                    continue
                out.append({"net": "gas", "multi": True, "order": ["power", "gas"] if si % 2 == 0 else ["gas", "power"], "profile": list(vec),
                            "steps": steps, "cod": cod, "two_controllers": (si % 2 == 1)})
    # topology changes between the steps, with and without the matrix-update option of the solver
    for vec in itertools.product(TOPO_LETTERS, repeat=n):
        if not any(l != "mid" for l in vec):
            continue
        for si, steps in enumerate(step_lists(n, tier)):
            for opts in ({}, {"only_update_hydraulic_matrix": True}):
                out.append({"net": "water", "profile": list(vec), "steps": steps, "cod": True, "two_controllers": (si % 2 == 1),
                            "topo": True, "opts": opts})
    return out


def standalone(kind, base, letter, second, opts=None):
    net, _ = make_net(kind)
    f, on = LETTERS[letter][:2]
    net.sink.loc[net.sink.index[0], "mdot_kg_per_s"] = base * f
    net.sink.loc[net.sink.index[1], "mdot_kg_per_s"] = second
    net.ext_grid["in_service"] = on
    pa, pb = pipes_state(letter)
    net.pipe.loc[net.pipe.index[1], "in_service"] = pa
    net.pipe.loc[net.pipe.index[2], "in_service"] = pb
    try:
        pp.pipeflow(net, use_numba=False, **(opts or {}))
        return True, net
    except PipeflowNotConverged:
        return False, net


def pipes_state(letter):
    v = LETTERS[letter]
    return v[2] if len(v) > 2 else (True, True)


HHV_LGAS = None


def power_member():
    import pandapower as ppw
    net = ppw.create_empty_network()
    b = ppw.create_buses(net, 2, 20.0)
    ppw.create_ext_grid(net, b[0])
    ppw.create_line(net, b[0], b[1], 1.0, "NAYY 4x50 SE")
    ppw.create_load(net, b[1], 0.2)
    ppw.create_sgen(net, b[1], 0.0)
    return net


def run_case(case):
    multi = case.get("multi", False)
    kind = "gas" if multi else case["net"]
    opts = case.get("opts") or {}
    net, base = make_net(kind)
    prof = case["profile"]
    n = len(prof)
    second = [base * (0.6 + 0.1 * t) for t in range(n)]
    ds = DFData(pd.DataFrame({"s0": [base * LETTERS[l][0] for l in prof], "s1": second}))
    ds_eg = DFData(pd.DataFrame({"eg": [LETTERS[l][1] for l in prof]}))  # separate frame: keeps the float profile columns float
    if case["two_controllers"]:
        ConstControl(net, element="sink", variable="mdot_kg_per_s", element_index=[net.sink.index[0]], data_source=ds, profile_name=["s0"])
        ConstControl(net, element="sink", variable="mdot_kg_per_s", element_index=[net.sink.index[1]], data_source=ds, profile_name=["s1"])
    else:
        ConstControl(net, element="sink", variable="mdot_kg_per_s", element_index=list(net.sink.index), data_source=ds,
                     profile_name=["s0", "s1"])
    ConstControl(net, element="ext_grid", variable="in_service", element_index=[net.ext_grid.index[0]], data_source=ds_eg, profile_name=["eg"])
    if case.get("topo"):
        ds_p = DFData(pd.DataFrame({"pa": [pipes_state(l)[0] for l in prof], "pb": [pipes_state(l)[1] for l in prof]}))
        ConstControl(net, element="pipe", variable="in_service", element_index=[net.pipe.index[1], net.pipe.index[2]], data_source=ds_p,
                     profile_name=["pa", "pb"])
    logvars = [("res_junction", "p_bar"), ("res_pipe", "mdot_from_kg_per_s"), ("res_ext_grid", "mdot_kg_per_s"), ("res_sink", "mdot_kg_per_s")]
    ow = OutputWriter(net, case["steps"], output_path=None, log_variables=logvars)
    steps = case["steps"]
    vs = []
    tag = {"net": "multinet" if multi else kind, "cod": case["cod"]}
    if multi:
        # the gas net is one member of a multinet, a gas-led G2P unit feeds the power member from the first sink
        from pandapipes.multinet.create_multinet import create_empty_multinet, add_net_to_multinet
        from pandapipes.multinet.control.controller.multinet_control import G2PControlMultiEnergy
        from pandapipes.multinet.timeseries.run_time_series_multinet import run_timeseries as run_timeseries_mn
        pw = power_member()
        mn = create_empty_multinet("m")
        for name in case["order"]:
            add_net_to_multinet(mn, pw if name == "power" else net, name)
        G2PControlMultiEnergy(mn, 0, net.sink.index[0], efficiency=0.6, element_type_power="sgen")
        ow_p = OutputWriter(pw, case["steps"], output_path=None, log_variables=[("res_sgen", "p_mw"), ("res_bus", "vm_pu")])
    if opts:
        tag["opts"] = ",".join(sorted(opts))
    where = "net=%s profile=%s steps=%s continue_on_divergence=%s%s" % (kind, prof, steps, case["cod"], (" options=%s" % opts) if opts else "")
    refs = {t: standalone(kind, base, prof[t], second[t], opts) for t in set(steps)}
    first_fail = next((i for i, t in enumerate(steps) if not refs[t][0]), None)
    try:
        if multi:
            run_timeseries_mn(mn, time_steps=steps, continue_on_divergence=case["cod"], verbose=False)
        else:
            run_timeseries(net, time_steps=steps, continue_on_divergence=case["cod"], verbose=False, use_numba=False, **opts)
        raised = None
    except Exception as e:
        raised = e
    states = [core.jhash([kind, multi, prof, steps[:i + 1], case["cod"], opts]) for i in range(len(steps))]
    if first_fail is not None and not case["cod"]:
        if raised is None:
            vs.append(viol("divergence_not_raised", "%s: step %s cannot be solved but the time series did not raise" % (where, steps[first_fail]), **tag))
        elif not isinstance(raised, (PipeflowNotConverged, NetCalculationNotConverged) if multi else PipeflowNotConverged):
            vs.append(viol("wrong_exception", "%s: raised %s: %s" % (where, type(raised).__name__, str(raised)[:100]), exc=type(raised).__name__, **tag))
        checked = []  # the OutputWriter only hands out its log after a completed run
    else:
        if raised is not None:
            vs.append(viol("unexpected_exception", "%s: raised %s: %s" % (where, type(raised).__name__, str(raised)[:100]),
                           exc=type(raised).__name__, has_failing_step=first_fail is not None, **tag))
            checked = []
        else:
            checked = steps
    params = ow.output.get("Parameters")
    for t in checked:
        ok, ref = refs[t]
        failed_flag = bool(params.loc[t, "powerflow_failed"]) if params is not None and "powerflow_failed" in params and t in params.index else None
        if not ok:
            if failed_flag is not True:
                vs.append(viol("failed_step_not_reported", "%s: step %s cannot be solved stand-alone but is logged as converged" % (where, t), **tag))
            for table, col in logvars:
                key = "%s.%s" % (table, col)
                if key in ow.output and t in ow.output[key].index:
                    vals = ow.output[key].loc[t].values.astype(float)
                    if np.any(np.isfinite(vals) & (vals != 0)):
                        vs.append(viol("failed_step_logged_results", "%s: failed step %s logged %s = %s" % (where, t, key, vals), var=key, **tag))
                        break
            continue
        if failed_flag:
            vs.append(viol("converged_step_reported_failed", "%s: step %s solves stand-alone but is logged as failed" % (where, t), **tag))
            continue
        for table, col in logvars:
            key = "%s.%s" % (table, col)
            if key not in ow.output or t not in ow.output[key].index:
                vs.append(viol("step_not_logged", "%s: no log for %s at step %s" % (where, key, t), var=key, **tag))
                continue
            got = ow.output[key].loc[t].values.astype(float)
            want = ref[table][col].values.astype(float)
            if got.shape != want.shape or not np.all((np.isnan(got) & np.isnan(want)) | (np.abs(got - want) <= 1e-9 + 1e-7 * np.abs(want))):
                vs.append(viol("step_differs_from_standalone", "%s: step %s %s logged %s, stand-alone %s" % (where, t, key, got, want),
                               var=key, after_failure=first_fail is not None and steps.index(t) > first_fail, **tag))
                break
    if multi and checked:
        import pandapower as ppw
        global HHV_LGAS
        if HHV_LGAS is None:
            import os
            for line in open(os.path.join(os.path.dirname(pp.__file__), "properties", "lgas", "higher_heating_value.txt")):
                line = line.split("#")[0].strip()
                if line:
                    HHV_LGAS = float(line)
        for t in checked:
            ok, ref = refs[t]
            if not ok:
                continue
            key = "res_sgen.p_mw"
            want = ref.sink.mdot_kg_per_s.values[0] * HHV_LGAS * 3600 / 1e3 * 0.6
            got = ow_p.output[key].loc[t].values.astype(float) if key in ow_p.output and t in ow_p.output[key].index else np.array([np.nan])
            if not (got.shape == (1,) and abs(got[0] - want) <= 1e-9 * max(1.0, abs(want))):
                vs.append(viol("step_differs_from_standalone", "%s: step %s power member %s logged %s, stand-alone conversion of that step's gas demand %r" % (
                    where, t, key, got, want), var="power." + key, after_failure=first_fail is not None and steps.index(t) > first_fail, **tag))
                break
    return {"status": "ok", "violations": vs, "states": states, "transitions": len(steps), "traces": 1,
            "nontrivial": len(checked) > 0, "sig": core.jhash([kind, multi, prof, steps, case["cod"], opts])}
