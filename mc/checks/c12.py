"""C12 - pipeflow is a pure, repeatable function of the network description.
Explicit-state BFS over call histories on one net object (modes, options, failing runs, user options, parameter
edits that are undone); invariants: inputs untouched, repeat bit-identical, result = result on a fresh net,
heat from stored solution = sequential."""
import copy
import itertools
import numpy as np
import pandas as pd
from mc import core, spec
from mc.core import viol
import pandapipes as pp
from pandapipes.pf import pipeflow_setup as ps
from pandapipes.idx_node import PINIT
from pandapipes.idx_branch import MDOTINIT

ID = "C12"
CASE_WEIGHT = 4   # relative cost of one case (pool sizing)
LEVEL = "model_checking"
RULE = ("state = history of operations applied to one net object (3 nets: water mesh with NaN outer diameters, std-type "
        "pipes, junction-pipe valve and out-of-service pipe; gas net with compressor; heat loop with circulation pump and "
        "consumers). Operations: pipeflow in modes hydraulics/sequential/bidirectional/heat-from-stored-solution with "
        "option variants (numba, colebrook, automatic damping, only_update/reuse), failing pipeflow (iteration budget 1), "
        "set_user_pf_options, parameter edit followed later by its restore. BFS to depth 2 (quick) / 3 (thorough); every "
        "transition checks the invariants. transitions = real pipeflow / edit calls.")
ASSUMPTIONS = ["deep comparison of every non-underscore, non-res_ entry of the net (values, dtypes, index, column order), of "
               "every fluid property object, std types, component_list, user_pf_options (minus the documented hyd_flag "
               "marker) and of the module-level default_options",
               "fresh reference = the same description rebuilt from scratch and solved once with the same call"]
DETERMINISM_SLICE = 3


def warmup():
    spec.warmup_numba()


def net_water():
    net = pp.create_empty_network(fluid="water")
    j = pp.create_junctions(net, 5, 5, 320, height_m=[0, 2, 4, 1, 0])
    pp.create_ext_grid(net, j[0], 5, 350, type="pt")
    pp.create_pipe_from_parameters(net, j[0], j[1], 0.3, 60, u_w_per_m2k=8, sections=3)          # outer diameter NaN
    pp.create_pipe_from_parameters(net, j[1], j[2], 0.2, 50, u_w_per_m2k=8, outer_diameter_mm=70)
    pp.create_pipe(net, j[1], j[3], "80_GGG", 0.2, text_k=285.0, u_w_per_m2k=5.0)   # the library type carries no u value
    pp.create_pipe_from_parameters(net, j[2], j[3], 0.1, 40, u_w_per_m2k=8, in_service=False)
    pp.create_pipe_from_parameters(net, j[3], j[4], 0.1, 40, u_w_per_m2k=8)
    pp.create_valve(net, j[3], 4, "pi", 40)
    pp.create_valve(net, j[2], j[4], "ju", 30, loss_coefficient=3.0)
    pp.create_sink(net, j[2], 0.4)
    pp.create_sink(net, j[4], 0.3, scaling=0.5)
    pp.create_source(net, j[3], 0.05)
    pp.create_sink(net, j[1], 0.2, scaling=1.3, in_service=False)
    # a pressure controller feeding one more junction (its matrix entries share positions with other elements)
    j5 = pp.create_junction(net, 5, 320)
    pp.create_pressure_control(net, j[4], j5, j5, 4.2)
    pp.create_sink(net, j5, 0.1)
    return net


def net_gas():
    net = pp.create_empty_network(fluid="lgas")
    j = pp.create_junctions(net, 4, 1.0, 293)
    pp.create_ext_grid(net, j[0], 1.0, 293)
    pp.create_pipe_from_parameters(net, j[0], j[1], 1.0, 80, sections=2)
    pp.create_compressor(net, j[1], j[2], 1.2)
    pp.create_pipe_from_parameters(net, j[2], j[3], 0.5, 60)
    pp.create_sink(net, j[3], 0.01)
    pp.create_mass_storage(net, j[1], 0.002)
    return net


def net_loop():
    net = pp.create_empty_network(fluid="water")
    j = pp.create_junctions(net, 4, 5, 340)
    pp.create_circ_pump_const_pressure(net, j[3], j[0], 5, 1.0, 355, type="pt")
    pp.create_pipe_from_parameters(net, j[0], j[1], 0.2, 60, u_w_per_m2k=10, sections=2)
    pp.create_heat_consumer(net, j[1], j[2], qext_w=20000, controlled_mdot_kg_per_s=0.5)
    pp.create_heat_consumer(net, j[1], j[2], controlled_mdot_kg_per_s=0.2, deltat_k=12.0)
    # heat-defined consumers (mass flow follows from the demand): their controlled_mdot_kg_per_s is NaN in the user's table
    pp.create_heat_consumer(net, j[1], j[2], qext_w=8000, deltat_k=15.0, index=7)
    pp.create_heat_consumer(net, j[1], j[2], qext_w=6000, treturn_k=335.0, index=4)
    pp.create_pipe_from_parameters(net, j[2], j[3], 0.2, 60, u_w_per_m2k=10)
    return net


NETS = {"water": net_water, "gas": net_gas, "loop": net_loop}

# operations ------------------------------------------------------------------------------------------
PF = {
    "hyd": {"mode": "hydraulics", "use_numba": False},
    "hyd_numba_cb": {"mode": "hydraulics", "use_numba": True, "friction_model": "colebrook"},
    "hyd_auto": {"mode": "hydraulics", "use_numba": False, "nonlinear_method": "automatic", "iter": 30},
    "hyd_update": {"mode": "hydraulics", "use_numba": False, "only_update_hydraulic_matrix": True},
    "seq": {"mode": "sequential", "use_numba": False},
    "bidir": {"mode": "bidirectional", "use_numba": False, "iter": 40},
    "fail": {"mode": "hydraulics", "use_numba": False, "iter": 1, "tol_p": 1e-14, "tol_m": 1e-14},
    # refused while the internal tables are set up (a transient calculation needs simulation_time_step)
    "fail_early": {"mode": "hydraulics", "use_numba": False, "transient": True},
    # internal matrix structure kept on the net object and re-used by the next call
    "hyd_reuse": {"mode": "hydraulics", "use_numba": False, "only_update_hydraulic_matrix": True, "reuse_internal_data": True},
    "heat_stored": "special",
    "hyd_save": "special",       # hydraulics, the solution vector is kept for a later heat_saved
    "heat_saved": "special",     # thermal-only run from the solution vector kept by the last hyd_save of the history
}
EDITS = {
    "edit_sink": ("sink", "mdot_kg_per_s", lambda v: v * 3.0), "edit_d": ("pipe", "inner_diameter_mm", lambda v: v * 0.8),
    "edit_ins": ("pipe", "in_service", lambda v: ~v), "edit_pn": ("junction", "pn_bar", lambda v: v * 2.0),
    "edit_hc": ("heat_consumer", "controlled_mdot_kg_per_s", lambda v: v * 0.5),
    "edit_q0": ("heat_consumer", "qext_w", lambda v: v * 0.0),       # demand switched off (and later restored)
}
OPS = list(PF.keys()) + ["user_opts", "user_iter", "user_reset"] + list(EDITS.keys()) + ["restore"]


def applicable(netname, op):
    if netname == "gas" and op in ("seq", "bidir", "heat_stored", "heat_saved", "edit_hc", "edit_q0"):
        return False
    if netname == "loop" and op in ("edit_sink",):
        return False
    if netname != "loop" and op in ("edit_hc", "edit_q0"):
        return False
    return True


def snapshot_inputs(net):
    snap = {"tables": {}, "other": {}}
    for k, v in net.items():
        if k.startswith("_") or k.startswith("res_"):
            continue
        if isinstance(v, pd.DataFrame):
            snap["tables"][k] = v.copy(deep=True)
        elif k == "fluid":
            snap["other"]["fluid"] = fluid_repr(v)
        elif k == "std_types":
            snap["other"]["std_types"] = std_repr(v)
        elif k == "user_pf_options":
            d = dict(v)
            d.pop("hyd_flag", None)
            snap["other"]["user_pf_options"] = copy.deepcopy(d)
        elif k == "component_list":
            snap["other"]["component_list"] = [c.__name__ for c in v]
        elif k in ("name", "version", "format_version", "sector"):
            snap["other"][k] = str(v)
    snap["other"].setdefault("user_pf_options", {})  # absent and empty are the same description
    snap["other"]["default_options"] = copy.deepcopy(ps.default_options)
    return snap


def fluid_repr(f):
    out = {"name": f.name, "type": f.fluid_type, "is_gas": f.is_gas}
    for pn, prop in f.all_properties.items():
        d = {}
        for a, val in vars(prop).items():
            if callable(val) and not isinstance(val, (int, float)):
                # interpolators: probe them
                try:
                    d[a] = [float(val(x)) for x in (280.0, 300.0, 350.0)]
                except Exception:
                    d[a] = "callable"
            elif isinstance(val, np.ndarray):
                d[a] = val.tolist()
            else:
                d[a] = repr(val)
        out[pn] = (type(prop).__name__, d)
    return out


def std_repr(st):
    out = {}
    for comp, types in st.items():
        for name, val in types.items():
            if isinstance(val, dict):
                out["%s/%s" % (comp, name)] = {k: (None if (isinstance(v, float) and np.isnan(v)) else v) for k, v in val.items()}
            else:
                out["%s/%s" % (comp, name)] = {k: (v.tolist() if isinstance(v, np.ndarray) else repr(v)) for k, v in vars(val).items()}
    return out


def diff_inputs(a, b):
    for k in set(a["tables"]) | set(b["tables"]):
        if k not in a["tables"] or k not in b["tables"]:
            return "table %s appeared/disappeared" % k
        d = spec.frames_equal(a["tables"][k], b["tables"][k])
        if d:
            return "table %s: %s" % (k, d)
    for k in set(a["other"]) | set(b["other"]):
        if a["other"].get(k) != b["other"].get(k):
            return "%s changed: %s -> %s" % (k, str(a["other"].get(k))[:120], str(b["other"].get(k))[:120])
    return None


def results(net):
    out = {}
    for k in net.keys():
        if k.startswith("res_") and isinstance(net[k], pd.DataFrame):
            out[k] = (list(net[k].columns), net[k].index.tolist(), net[k].values.astype(float).copy())
    # the verdict flag belongs to the results
    out["res__converged_flag"] = (["converged"], [0], np.array([[float(bool(net.get("converged", False)))]]))
    return out


def results_equal(a, b, exact=True, rtol=1e-9):
    for k in set(a) | set(b):
        if k not in a or k not in b:
            return "table %s missing" % k
        if a[k][0] != b[k][0] or a[k][1] != b[k][1]:
            return "table %s columns/index differ" % k
        x, y = a[k][2], b[k][2]
        if x.shape != y.shape:
            return "table %s shape" % k
        same = (np.isnan(x) & np.isnan(y)) | (x == y if exact else np.abs(x - y) <= 1e-12 + rtol * np.maximum(np.abs(x), np.abs(y)))
        if not np.all(same):
            i, j = np.argwhere(~same)[0]
            return "table %s row %s column %s: %r vs %r" % (k, a[k][1][i], a[k][0][j], x[i, j], y[i, j])
    return None


def do_pf(net, op):
    """returns ('ok'|'raised:X')"""
    try:
        if op == "hyd_save":
            pp.pipeflow(net, mode="hydraulics", use_numba=False)
            net["_verif_saved"] = np.concatenate((net._pit["node"][:, PINIT], net._pit["branch"][:, MDOTINIT]))
        elif op == "heat_saved":
            if "_verif_saved" not in net:
                return "skipped"
            pp.pipeflow(net, mode="heat", sol_vec=net["_verif_saved"], use_numba=False)
        elif op == "heat_stored":
            pp.pipeflow(net, mode="hydraulics", use_numba=False)
            u = np.concatenate((net._pit["node"][:, PINIT], net._pit["branch"][:, MDOTINIT]))
            pp.pipeflow(net, mode="heat", sol_vec=u, use_numba=False)
        else:
            pp.pipeflow(net, **PF[op])
        return "ok"
    except Exception as e:
        return "raised:" + type(e).__name__


def apply_ops(net, ops, check=None):
    """replays a history; check(i, op, before_snapshot, status) is called for the pipeflow operations"""
    saved = []
    statuses = []
    for i, op in enumerate(ops):
        if op in PF:
            before = snapshot_inputs(net) if check else None
            st = do_pf(net, op)
            statuses.append(st)
            if check:
                check(i, op, before, st)
        elif op == "failrun":
            do_pf(net, "fail")     # a failing calculation in between (not checked itself)
            continue
        elif op is not None and "_verif_saved" in net:
            del net["_verif_saved"]      # inputs or options change: the kept solution no longer belongs to this net
        if op == "user_opts":
            pp.set_user_pf_options(net, friction_model="swamee-jain", tol_p=2e-6)
        elif op == "user_iter":
            pp.set_user_pf_options(net, iter=35)
        elif op == "user_reset":
            pp.set_user_pf_options(net, reset=True)
        elif op in EDITS:
            t, c, f = EDITS[op]
            if t in net and len(net[t]):
                saved.append((t, c, net[t][c].copy()))
                net[t][c] = f(net[t][c])
        elif op == "restore":
            while saved:
                t, c, v = saved.pop()
                net[t][c] = v
    return statuses


PRE = [None, "user_opts", "user_iter", "user_reset", "restore", "failrun"] + list(EDITS.keys())


def cases(tier):
    """a history is a sequence of steps; a step = optional description/option operation followed by one pipeflow"""
    out = []
    for netname in NETS:
        pfs = [o for o in PF if applicable(netname, o)]
        pres = [o for o in PRE if o is None or applicable(netname, o)]
        # re-using the internal matrix structure right after a structural edit is a caller's error, not a history effect
        steps = [(a, b) for a in pres for b in pfs if not (b == "hyd_reuse" and a in ("edit_ins", "restore"))]
        for first in pfs:
            out.append({"net": netname, "ops": [first]})
            for a, b in steps:
                out.append({"net": netname, "ops": [first] + ([a] if a else []) + [b]})
        for a in pres[1:]:
            for b in pfs:
                out.append({"net": netname, "ops": [a, b]})
        if tier == "thorough":
            for first in pfs:
                for (a, b), (c, d) in itertools.product(steps, repeat=2):
                    if a is None and c is None:
                        continue
                    if not (b in ("hyd", "hyd_update", "seq") and d in ("hyd", "hyd_update", "seq", "bidir", "heat_stored")):
                        continue
                    out.append({"net": netname, "ops": [first] + ([a] if a else []) + [b] + ([c] if c else []) + [d]})
    return out


def run_case(case):
    netname = case["net"]
    net = NETS[netname]()
    vs = []
    transitions = [0]
    states = []
    tag = {"net": netname}

    def check(i, op, before, st):
        transitions[0] += 1
        where = "net=%s history=%s step %d (%s)" % (netname, case["ops"], i, op)
        after = snapshot_inputs(net)
        d = diff_inputs(before, after)
        if d:
            what = d.split(":")[0]
            vs.append(viol("inputs_modified", "%s: %s" % (where, d), op=op, what=what.split(" ")[0] + " " + what.split(" ")[-1], **tag))
        states.append(core.jhash([netname, case["ops"][:i + 1], st]))

    statuses = apply_ops(net, case["ops"], check)
    # the last operation is a pipeflow: (ii) repeat it -> bit-identical, (iii) equals the fresh net
    last = case["ops"][-1]
    res1 = results(net)
    st1 = statuses[-1]
    st2 = do_pf(net, last)
    transitions[0] += 1
    res2 = results(net)
    where = "net=%s history=%s" % (netname, case["ops"])
    if st1 != st2:
        vs.append(viol("repeat_verdict_differs", "%s: %s then %s when repeated" % (where, st1, st2), op=last, **tag))
    elif st1 == "ok":
        d = results_equal(res1, res2, exact=True)
        if d:
            vs.append(viol("repeat_not_identical", "%s: repeating the last call changes %s" % (where, d), op=last, **tag))
    # fresh net carrying the same description (edits that are still in force are re-applied, user options too)
    fresh = NETS[netname]()
    desc_ops = [o for o in case["ops"][:-1] if o not in PF]
    apply_ops(fresh, desc_ops)
    if last == "heat_saved":
        if st1 == "skipped":
            return {"status": "ok", "violations": vs, "states": states, "transitions": transitions[0], "traces": 1, "nontrivial": False, "sig": None}
        do_pf(fresh, "hyd_save")
    st3 = do_pf(fresh, last)
    transitions[0] += 1
    if st3 != st1:
        vs.append(viol("history_changes_verdict", "%s: after the history %s, on a fresh net %s" % (where, st1, st3), op=last, **tag))
    elif st1 == "ok":
        d = results_equal(res1, results(fresh), exact=False)
        if d:
            vs.append(viol("history_changes_results", "%s: differs from the fresh net in %s" % (where, d), op=last,
                           first=case["ops"][0], **tag))
    elif st1.startswith("raised"):
        # a refused / failed call leaves the same (empty) results and verdict flag behind as on a fresh net
        d = results_equal(res1, results(fresh), exact=False)
        if d:
            vs.append(viol("failed_call_leaves_state", "%s: after the failing call the net differs from a fresh net with the same "
                           "failing call in %s" % (where, d), op=last, **tag))
    # (iv) heat from the stored hydraulic solution equals sequential
    if last in ("heat_stored", "heat_saved") and st1 == "ok":
        seqnet = NETS[netname]()
        apply_ops(seqnet, desc_ops)
        if do_pf(seqnet, "seq") == "ok":
            # the thermal-only run reports thermal results: compare the temperature / heat columns
            keep = lambda r: {k: (cols, idx, vals[:, [i for i, c in enumerate(cols) if c.startswith("t_") or c in ("deltat_k", "qext_w")]])
                              for k, (cols, idx, vals) in r.items()}
            d = results_equal({k: ([c for c in v[0] if c.startswith("t_") or c in ("deltat_k", "qext_w")], v[1], v[2])
                               for k, v in keep(res1).items()},
                              {k: ([c for c in v[0] if c.startswith("t_") or c in ("deltat_k", "qext_w")], v[1], v[2])
                               for k, v in keep(results(seqnet)).items()}, exact=False, rtol=1e-6)
            if d:
                vs.append(viol("heat_differs_from_sequential", "%s: %s" % (where, d), **tag))
            # every other cell is either not computed (NaN) or the value of the sequential run - never another number
            rs = results(seqnet)
            for k, (cols, idx, vals) in res1.items():
                if k not in rs or rs[k][0] != cols or rs[k][2].shape != vals.shape:
                    continue
                ref = rs[k][2]
                bad = ~np.isnan(vals) & ~(np.abs(vals - ref) <= 1e-6 * np.maximum(1.0, np.abs(ref)))
                if bad.any():
                    r_, c_ = np.argwhere(bad)[0]
                    vs.append(viol("heat_reports_other_number", "%s: %s row %s column %s: heat-only run reports %r, sequential run %r" % (
                        where, k, idx[r_], cols[c_], vals[r_, c_], ref[r_, c_]), table=k, col=cols[c_], **tag))
                    break
    return {"status": "ok", "violations": vs, "states": states, "transitions": transitions[0], "traces": 1,
            "nontrivial": len(case["ops"]) > 1, "sig": core.jhash([netname, case["ops"], statuses]),
            "info": {"last_call_%s_%s_%s" % (netname, last, st1.split(":")[0]): 1}}
