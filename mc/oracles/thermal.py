"""Thermal laws re-evaluated from the result tables (C10) and heat duties (C11)."""
import numpy as np
from mc import spec
from mc.core import viol
from mc.oracles.mass import FROM_TO

TOLK = 1e-7


def cp(fluid, t):
    return float(fluid.get_heat_capacity(t))


def branch_rows(net):
    """yield (table, idx, from_junction, to_junction, result row) for every branch row with results"""
    for t, (fc, tc) in FROM_TO.items():
        if t in net and len(net[t]):
            for idx in net[t].index:
                r = net["res_" + t].loc[idx]
                if np.isnan(r.mdot_from_kg_per_s):
                    continue
                yield t, idx, net[t].at[idx, fc], net[t].at[idx, tc], r
    if "valve" in net and len(net.valve):
        for idx in net.valve.index:
            r = net.res_valve.loc[idx]
            if np.isnan(r.mdot_from_kg_per_s) or net.valve.at[idx, "et"] != "ju":
                continue
            yield "valve", idx, net.valve.at[idx, "junction"], net.valve.at[idx, "element"], r


def check_thermal(net, ambient, heat_sources=False, fixed_only=False):
    fluid = net.fluid
    vs = []
    info = {}
    tj = net.res_junction.t_k

    def cnt(k):
        info[k] = info.get(k, 0) + 1
    # (i) cooling law per pipe section
    for pos, idx in enumerate(net.pipe.index):
        r = net.res_pipe.loc[idx]
        m = r.mdot_from_kg_per_s
        if np.isnan(m) or abs(m) < 1e-8 or np.isnan(r.t_outlet_k):
            continue
        row = net.pipe.loc[idx]
        ns = int(row.sections)
        _, tin = spec.internal_nodes(net, pos, ns)
        fj, tjn = row.from_junction, row.to_junction
        chain = [tj[fj]] + list(tin) + [None]
        if m < 0:
            chain = [tj[tjn]] + list(tin[::-1]) + [None]
        chain[-1] = r.t_outlet_k
        text = row.text_k if not np.isnan(row.text_k) else ambient
        do = row.outer_diameter_mm if ("outer_diameter_mm" in row and not np.isnan(row.outer_diameter_mm)) else row.inner_diameter_mm
        Ls = row.length_km * 1000.0 / ns
        worst = 0.0
        for s in range(ns):
            t_in, t_out = chain[s], chain[s + 1]
            cpm = (cp(fluid, t_in) + cp(fluid, t_out)) / 2
            want = text + (t_in - text) * np.exp(-row.u_w_per_m2k * np.pi * do / 1000.0 * Ls / (cpm * abs(m)))
            worst = max(worst, abs(want - t_out))
        cnt("cooling_law_%s%s" % ("rev" if m < 0 else "fwd", "_multi" if ns > 1 else ""))
        if not worst <= TOLK:
            vs.append(viol("cooling_law", "pipe %s (sections %d, flow %s): outlet temperature off by %.3e K; chain %s" % (
                idx, ns, "reverse" if m < 0 else "forward", worst, np.round(chain, 6).tolist()),
                reverse=bool(m < 0), multi=ns > 1))
    # (ii) energy-conserving mixing at junctions
    fixed_t = set()
    if len(net.ext_grid):
        for i, r in net.ext_grid.iterrows():
            if r.in_service and "t" in r.type:
                fixed_t.add(r.junction)
    for t in ("circ_pump_mass", "circ_pump_pressure"):
        if t in net and len(net[t]):
            for i, r in net[t].iterrows():
                if r.in_service and "t" in r.type:
                    fixed_t.add(r.flow_junction)
    inflow = {}
    for t, idx, fj, tjn, r in branch_rows(net):
        m = r.mdot_from_kg_per_s
        if abs(m) < 1e-8 or np.isnan(r.t_outlet_k):
            continue
        j = tjn if m > 0 else fj
        inflow.setdefault(j, []).append((abs(m), r.t_outlet_k, t, idx))
    for j, ins in inflow.items():
        if j in fixed_t or np.isnan(tj[j]):
            continue
        T = tj[j]
        bal = sum(m * (cp(fluid, to) + cp(fluid, T)) / 2 * (to - T) for m, to, _, _ in ins)
        scale = sum(m * cp(fluid, T) for m, _, _, _ in ins)
        cnt("mixing_%d" % min(len(ins), 3))
        if not abs(bal) <= TOLK * scale:
            vs.append(viol("mixing", "junction %s: energy imbalance %.4e W (= %.3e K), T=%.8f, inflows %s" % (
                j, bal, bal / scale, T, [(round(m, 6), round(to, 6), t) for m, to, t, _ in ins]), n=min(len(ins), 3)))
    # (iii) fixed temperatures
    if len(net.ext_grid):
        for i, r in net.ext_grid.iterrows():
            if r.in_service and "t" in r.type and not np.isnan(tj[r.junction]):
                others = [x.t_k for _, x in net.ext_grid.iterrows() if x.in_service and "t" in x.type and x.junction == r.junction]
                cnt("fixed_t_ext_grid")
                if not abs(tj[r.junction] - np.mean(others)) <= 1e-9:
                    vs.append(viol("fixed_temperature", "ext_grid %s junction %s: t_k %.9f, fixed %.9f" % (i, r.junction, tj[r.junction], np.mean(others)),
                                   element="ext_grid"))
    for t in ("circ_pump_mass", "circ_pump_pressure"):
        if t in net and len(net[t]):
            for i, r in net[t].iterrows():
                rr = net["res_" + t].loc[i]
                if r.in_service and "t" in r.type and not np.isnan(rr.t_outlet_k):
                    cnt("fixed_t_circ_pump")
                    if not abs(rr.t_outlet_k - r.t_flow_k) <= 1e-9 or not abs(tj[r.flow_junction] - r.t_flow_k) <= 1e-9:
                        vs.append(viol("fixed_temperature", "%s %s: t_outlet %.9f, flow junction %.9f, set %.9f" % (
                            t, i, rr.t_outlet_k, tj[r.flow_junction], r.t_flow_k), element=t))
    # (iv) bounds without heat sources
    if not heat_sources:
        feeds = [r.t_k for _, r in net.ext_grid.iterrows() if r.in_service and "t" in r.type]
        for t in ("circ_pump_mass", "circ_pump_pressure"):
            if t in net and len(net[t]):
                feeds += [r.t_flow_k for _, r in net[t].iterrows() if r.in_service]
        ambs = [ambient] + [x for x in net.pipe.text_k.values if not np.isnan(x)]
        lo, hi = min(feeds + ambs), max(feeds + ambs)
        vals = [("junction %s" % j, tj[j]) for j in tj.index if not np.isnan(tj[j]) and not np.isnan(net.res_junction.p_bar[j])]
        for t, idx, fj, tjn, r in branch_rows(net):
            if not np.isnan(r.t_outlet_k):
                vals.append(("%s %s outlet" % (t, idx), r.t_outlet_k))
        cnt("bounds")
        for name, v in vals:
            if not (lo - 1e-7 <= v <= hi + 1e-7):
                vs.append(viol("temperature_bounds", "%s = %.6f outside [%.6f, %.6f]" % (name, v, lo, hi)))
                break
    return vs, info
