"""Mass balance recomputed from the result tables only (C01)."""
import collections
import numpy as np

FROM_TO = {
    "pipe": ("from_junction", "to_junction"), "pump": ("from_junction", "to_junction"),
    "compressor": ("from_junction", "to_junction"), "flow_control": ("from_junction", "to_junction"),
    "press_control": ("from_junction", "to_junction"), "heat_exchanger": ("from_junction", "to_junction"),
    "heat_consumer": ("from_junction", "to_junction"),
    "circ_pump_mass": ("return_junction", "flow_junction"),
    "circ_pump_pressure": ("return_junction", "flow_junction"),
}
NODE_EL = [("sink", 1.0), ("source", -1.0), ("mass_storage", 1.0), ("ext_grid", 1.0)]


def junction_balance(net):
    """Returns (imbalance dict j -> (sum, abs_sum, touched kinds), global dict)."""
    inj = collections.defaultdict(float)
    tot = collections.defaultdict(float)
    kinds = collections.defaultdict(set)
    has_valve = "valve" in net and len(net.valve)
    vpi = net.valve[net.valve.et == "pi"] if has_valve else None
    for t, (fc, tc) in FROM_TO.items():
        if t not in net or not len(net[t]):
            continue
        res = net["res_" + t]
        tab = net[t]
        for idx in tab.index:
            mf = res.at[idx, "mdot_from_kg_per_s"]
            mt = res.at[idx, "mdot_to_kg_per_s"]
            if np.isnan(mf) and np.isnan(mt):
                continue
            fj, tj = tab.at[idx, fc], tab.at[idx, tc]
            if t == "pipe" and vpi is not None and len(vpi):
                # a pipe end that carries junction-pipe valve(s) is counted through the valve(s)
                if ((vpi.element == idx) & (vpi.junction == fj)).any():
                    fj = None
                if ((vpi.element == idx) & (vpi.junction == tj)).any():
                    tj = None
            if fj is not None:
                inj[fj] += mf
                tot[fj] += abs(mf)
                kinds[fj].add(t)
            if tj is not None:
                inj[tj] += mt
                tot[tj] += abs(mt)
                kinds[tj].add(t)
    if has_valve:
        res = net.res_valve
        for idx in net.valve.index:
            mf = res.at[idx, "mdot_from_kg_per_s"]
            mt = res.at[idx, "mdot_to_kg_per_s"]
            if np.isnan(mf) and np.isnan(mt):
                continue
            fj = net.valve.at[idx, "junction"]
            inj[fj] += mf
            tot[fj] += abs(mf)
            kinds[fj].add("valve_" + net.valve.at[idx, "et"])
            if net.valve.at[idx, "et"] == "ju":
                tj = net.valve.at[idx, "element"]
                inj[tj] += mt
                tot[tj] += abs(mt)
                kinds[tj].add("valve_ju")
    glob = {"feed": 0.0, "cons": 0.0, "abs": 0.0}
    pj = net.res_junction.p_bar
    for t, sgn in NODE_EL:
        if t not in net or not len(net[t]):
            continue
        res = net["res_" + t]
        for idx in net[t].index:
            v = res.at[idx, "mdot_kg_per_s"]
            if np.isnan(v):
                continue
            j = net[t].at[idx, "junction"]
            inj[j] += sgn * v
            tot[j] += abs(v)
            kinds[j].add(t)
            if j in pj.index and not np.isnan(pj[j]):
                if t == "ext_grid":
                    glob["feed"] += -v
                else:
                    glob["cons"] += sgn * v
                glob["abs"] += abs(v)
    return inj, tot, kinds, glob
