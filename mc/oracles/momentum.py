"""Independent evaluation of the documented momentum law (C02).

All quantities are taken from the result tables, the element tables and the public Fluid API.  The
friction factor is recomputed from the selected model with the harness' own code."""
import numpy as np

G = 9.81
PN = 1.01325
TN = 273.15


def pamb(h):
    return PN * np.power(1 - np.asarray(h, float) * 0.0065 / 288.15, 5.255)


def colebrook(re, d, k):
    lam = 0.02
    for _ in range(500):
        new = 1.0 / (-2 * np.log10(2.51 / (re * np.sqrt(lam)) + k / (3.71 * d))) ** 2
        if abs(new - lam) < 1e-16:
            lam = new
            break
        lam = new
    return lam


def lam_candidates(model, re, d, k, gas):
    """Admissible friction factors (equivalent documented forms are all accepted)."""
    if re <= 0:
        return [0.0]
    if model == "nikuradse":
        forms = [1 / (2 * np.log10(d / k) + 1.14) ** 2, 1 / (-2 * np.log10(k / (3.71 * d))) ** 2]
        code = forms[0] if gas else forms[1]
        other = forms[1] if gas else forms[0]
        return [64 / re + code, 64 / re + other]
    if model == "swamee-jain":
        return [0.25 / (np.log10(k / (3.7 * d) + 5.74 / re ** 0.9)) ** 2]
    if model == "colebrook":
        return [colebrook(re, d, k)]
    raise KeyError(model)


def section_residuals(fluid, model, m, P, H, T, L, d, k, zeta_total, strict):
    """P, H, T: node chain (len = sections+1), gauge pressures. L: section length [m].
    zeta_total: lumped loss coefficient of the whole element (pandapipes spreads it evenly).
    Returns list of dict(resid, lam, re, rho, v) per section, choosing for each section the admissible
    discretisation with the smallest residual (point envelope when strict)."""
    gas = fluid.is_gas
    A = np.pi * d * d / 4
    ns = len(P) - 1
    Pabs = np.asarray(P, float) + pamb(H)
    zeta = zeta_total / ns
    out = []
    for s in range(ns):
        a, b = s, s + 1
        tf, tt = float(T[a]), float(T[b])
        tmean = (tf + tt) / 2
        if strict or tf == tt:
            tcands = [tmean]
        else:
            tcands = [tmean, tf, tt]
        best = None
        if gas:
            pa, pb = Pabs[a], Pabs[b]
            pm = pa if pa == pb else 2 / 3 * (pa ** 3 - pb ** 3) / (pa ** 2 - pb ** 2)
            rn = float(fluid.get_density(TN))
            rfa = rn * TN * pa / (tf * PN * float(fluid.get_compressibility(pa)))
            rfb = rn * TN * pb / (tt * PN * float(fluid.get_compressibility(pb)))
            rhos = [(rfa + rfb) / 2] if (strict or H[a] == H[b]) else [(rfa + rfb) / 2, rfa, rfb]
            Kc = float(fluid.get_compressibility(pm))
            for te in tcands:
                eta = float(fluid.get_viscosity(te))
                re = abs(m) * d / (eta * A)
                for lam in lam_candidates(model, re, d, k, True):
                    for tm in tcands:
                        loss = PN / (TN * 1e5 * rn * A * A) * Kc * m * abs(m) * (lam * L / d + zeta) * tm / (pa + pb)
                        for rho in rhos:
                            r = pa - pb + rho * G * (H[a] - H[b]) / 1e5 - loss
                            if best is None or abs(r) < abs(best["resid"]):
                                best = {"resid": r, "lam": lam, "re": re, "rho": rho, "loss": loss, "pm": pm, "tm": tm}
        else:
            ra, rb = float(fluid.get_density(tf)), float(fluid.get_density(tt))
            rhos = [(ra + rb) / 2]
            if not strict and tf != tt:
                rhos += [ra, rb, float(fluid.get_density(tmean))]
            etas = [float(fluid.get_viscosity(t)) for t in tcands]
            for eta in etas:
                re = abs(m) * d / (eta * A)
                for lam in lam_candidates(model, re, d, k, False):
                    for rho in rhos:
                        loss = m * abs(m) * (lam * L / d + zeta) / (2 * rho * A * A * 1e5)
                        r = Pabs[a] - Pabs[b] + rho * G * (H[a] - H[b]) / 1e5 - loss
                        if best is None or abs(r) < abs(best["resid"]):
                            best = {"resid": r, "lam": lam, "re": re, "rho": rho, "loss": loss}
        out.append(best)
    return out
