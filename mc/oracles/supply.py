"""Independent reachability model on a NetSpec (C04 / C18): which junctions are supplied, which elements
are expected to carry results, and the pruned NetSpec (unsupplied / out-of-service elements deleted)."""
import copy

CONNECTING = {"pipe", "valve", "pump", "compressor", "flow_control", "press_control", "heat_exchanger",
              "circ_pump_mass", "circ_pump_pressure", "pipe_std"}
BRANCH_OPS = CONNECTING | {"heat_consumer"}
NODE_EL_OPS = {"sink", "source", "mass_storage", "ext_grid"}


def ends(op):
    k = op["op"]
    if k in ("circ_pump_mass", "circ_pump_pressure"):
        return op["return"], op["flow"]
    if k == "valve" and op.get("et", "ju") == "pi":
        return op["from"], None
    return op["from"], op["to"]


def analyse(spec, pc_directed=True):
    """returns dict(supplied=set(junction ids), roots=set, expect={element id: True/False}, ambiguous=str|None)"""
    ops = spec["ops"]
    byid = {o["id"]: o for o in ops}
    junctions = [o["id"] for o in ops if o["op"] == "junction"]
    jins = {o["id"]: o.get("in_service", True) for o in ops if o["op"] == "junction"}
    # junction-pipe valves: per (junction, pipe) pair the pipe end is open iff any valve of the pair is open
    pi = {}
    for o in ops:
        if o["op"] == "valve" and o.get("et", "ju") == "pi":
            key = (o["from"], o["pipe"])
            pi[key] = pi.get(key, False) or o.get("opened", True)
    # nodes: junctions + one valve node per (junction, pipe) pair that carries junction-pipe valves (this is the
    # documented structure of such a valve: it sits between the junction and the pipe end)
    adj = {j: set() for j in junctions}
    for key in pi:
        adj[("vn",) + key] = set()
    roots = set()
    oos_feeder_junctions = set()
    ambiguous = None
    for o in ops:
        k = o["op"]
        if k == "ext_grid" and o.get("in_service", True) and o.get("type", "pt") in ("p", "pt", "auto"):
            if not jins[o["junction"]]:
                # an out-of-service junction is deleted together with what hangs on it: its feeder supplies nothing.
                # (Ambiguous only where the junction is re-activated because another feeder reaches it, see below.)
                oos_feeder_junctions.add(o["junction"])
            else:
                roots.add(o["junction"])
        if k in ("circ_pump_mass", "circ_pump_pressure") and o.get("in_service", True):
            if not jins[o["flow"]]:
                ambiguous = "circulation pump in service on an out-of-service flow junction"
            roots.add(o["flow"])

    def pipe_end(o, j):
        return ("vn", j, o["id"]) if (j, o["id"]) in pi else j

    for o in ops:
        k = o["op"]
        if k not in CONNECTING:
            continue
        a, b = ends(o)
        if b is None:
            if o.get("opened", True):
                adj[a].add(("vn", a, o["pipe"]))
                adj[("vn", a, o["pipe"])].add(a)
            continue
        on = o.get("in_service", True)
        if k == "valve":
            on = o.get("opened", True)
        if k == "flow_control" and o.get("control_active", True):
            on = False  # an active flow controller separates its two sides hydraulically
        if k in ("pipe", "pipe_std"):
            a, b = pipe_end(o, a), pipe_end(o, b)
        if on:
            adj[a].add(b)
            # a controlling pressure controller is a one-way element; one that does not control is documented to
            # behave like an open valve
            if k != "press_control" or not pc_directed or not o.get("control_active", True):
                adj[b].add(a)
    supplied = set()
    stack = list(roots)
    while stack:
        x = stack.pop()
        if x in supplied:
            continue
        supplied.add(x)
        stack.extend(adj[x] - supplied)
    if oos_feeder_junctions & supplied:
        ambiguous = "pressure-fixing ext_grid in service on an out-of-service junction that another feeder reaches"
    # thermal supply: reachable from an in-service temperature-fixing feeder through hydraulically active branches
    # (prescribed-flow elements carry fluid and therefore temperature, although they do not pass pressure)
    troots = set()
    for o in ops:
        if o["op"] == "ext_grid" and o.get("in_service", True) and "t" in o.get("type", "pt").replace("auto", "pt") and o["junction"] in supplied:
            troots.add(o["junction"])
        if o["op"] in ("circ_pump_mass", "circ_pump_pressure") and o.get("in_service", True) and o["flow"] in supplied:
            troots.add(o["flow"])
    tadj = {k: set(v) & supplied for k, v in adj.items() if k in supplied}
    for o in ops:
        if o["op"] in ("heat_consumer", "flow_control") and o.get("in_service", True):
            a, b = ends(o)
            if a in supplied and b in supplied:
                tadj[a].add(b)
                tadj[b].add(a)
        if o["op"] == "press_control" and o.get("in_service", True):
            a, b = ends(o)
            if a in supplied and b in supplied:
                tadj[b].add(a)
    tsupplied = set()
    stack = list(troots)
    while stack:
        x = stack.pop()
        if x in tsupplied:
            continue
        tsupplied.add(x)
        stack.extend(tadj.get(x, set()) - tsupplied)
    expect = {}
    for o in ops:
        k = o["op"]
        if k == "junction":
            expect[o["id"]] = o["id"] in supplied
        elif k in NODE_EL_OPS:
            expect[o["id"]] = o.get("in_service", True) and o["junction"] in supplied
        elif k in BRANCH_OPS:
            a, b = ends(o)
            on = o.get("in_service", True) if k != "valve" else o.get("opened", True)
            if b is None:  # junction-pipe valve: its far end is the valve node in front of the pipe
                expect[o["id"]] = bool(on and a in supplied)
            elif k in ("pipe", "pipe_std"):
                expect[o["id"]] = bool(on and pipe_end(o, a) in supplied and pipe_end(o, b) in supplied)
            else:
                expect[o["id"]] = bool(on and a in supplied and b in supplied)
    texpect = {}
    for o in ops:
        if o["op"] in BRANCH_OPS and expect.get(o["id"]):
            a, b = ends(o)
            if b is None:
                texpect[o["id"]] = a in tsupplied
            elif o["op"] in ("pipe", "pipe_std"):
                texpect[o["id"]] = pipe_end(o, a) in tsupplied and pipe_end(o, b) in tsupplied
            else:
                texpect[o["id"]] = a in tsupplied and b in tsupplied
    return {"supplied": supplied, "roots": roots, "expect": expect, "ambiguous": ambiguous, "pi": pi, "tsupplied": tsupplied,
            "texpect": texpect}


def prune(spec, an=None):
    """NetSpec with every unsupplied / out-of-service / closed element deleted (labels kept explicit)."""
    an = an or analyse(spec)
    ops = []
    byid = {o["id"]: o for o in spec["ops"]}
    counters = {}
    for o in spec["ops"]:
        o = copy.deepcopy(o)
        t = "pipe" if o["op"] == "pipe_std" else o["op"]
        if "index" not in o or o["index"] is None:
            o["index"] = counters.get(t, 0)
        counters[t] = max(counters.get(t, 0), o["index"] + 1) if isinstance(o["index"], int) else counters.get(t, 0)
        if o["op"] in ("pipe", "pipe_std") and any(e == o["id"] and not opened for (j, e), opened in an["pi"].items()):
            continue  # pipe cut by a closed junction-pipe valve carries no flow: pipe and its valves are deleted
        if o["op"] == "valve" and o.get("et") == "pi" and (any(
                e == o["pipe"] and not opened for (j, e), opened in an["pi"].items()) or not an["expect"].get(o["pipe"], False)):
            continue
        if not an["expect"].get(o["id"], False):
            continue
        o.pop("in_service", None)
        ops.append(o)
    out = dict(spec)
    out["ops"] = ops
    return out
